"""E1 -- syntax-directed path enumerator + symbolic evaluator over the program model.

`Evaluator.run(func, args)` returns the finite list of paths of a function:
each path has the conditions under which it is taken and its outcome (`return` term / `raise`
term).  Nothing of y0 is executed: values are terms (see terms.py).  Repo functions are inlined
unless listed as primitives; everything that is outside the accepted statement/loop idioms becomes
an explicit `unknown` term (never silently dropped).
"""

from __future__ import annotations

import ast
import itertools
from dataclasses import dataclass, field, replace
from typing import Any

from .model import Cls, Func, Model, Module, dotted, unparse
from .terms import subterms, EMPTY, FALSE, NONE, TRUE, Term, alpha_normalise, alpha_normalise_bound, bound_vars, const, has_unknown, is_term, subst, unknown, var

SET_METHODS = {
    "union": "union",
    "difference": "diff",
    "intersection": "inter",
}
SET_PRED_METHODS = {"issubset", "issuperset", "isdisjoint"}
BUILTINS = {
    "set", "frozenset", "list", "tuple", "sorted", "len", "any", "all", "isinstance", "map", "zip",
    "enumerate", "range", "min", "max", "sum", "next", "iter", "dict", "bool", "str", "int", "print",
    "getattr", "hasattr", "type", "reversed", "filter", "repr", "id", "callable", "issubclass", "super",
    "ValueError", "TypeError", "KeyError", "RuntimeError", "NotImplementedError", "ZeroDivisionError",
    "Exception", "StopIteration", "IndexError", "AttributeError", "NameError", "float", "abs", "round",
    "object", "vars", "hash", "frozenset", "slice", "divmod", "open", "format", "chr", "ord", "staticmethod",
    "classmethod", "property", "DeprecationWarning", "UserWarning", "RuntimeWarning", "ImportError",
}
MUTATORS = {
    "add", "update", "append", "extend", "remove", "discard", "pop", "clear", "insert", "setdefault",
    "add_node", "add_nodes_from", "add_edge", "add_edges_from", "remove_node", "remove_nodes_from",
    "remove_edge", "remove_edges_from", "add_directed_edge", "add_undirected_edge", "intersection_update",
    "difference_update", "symmetric_difference_update", "sort", "reverse", "popitem",
}


@dataclass(frozen=True)
class Path:
    conds: tuple
    kind: str  # 'return' | 'raise'
    value: Term
    line: int = 0
    notes: tuple = ()
    writes: tuple = ()  # (parameter, final term) for parameters whose OBJECT the callee has modified in place


def _live_at_entry(stmts: list, defined: set) -> set:
    """Names that may be READ before they are assigned when `stmts` run from the top (definite-assignment analysis over the statement kinds the
    repository uses; nested function bodies count as reads of everything they mention)."""
    live: set = set()

    def reads(e) -> set:
        if e is None:
            return set()
        own = set()  # names bound inside the expression itself (comprehension targets, lambda parameters) are not the function's variables
        for n in ast.walk(e):
            if isinstance(n, ast.comprehension):
                own |= {m.id for m in ast.walk(n.target) if isinstance(m, ast.Name)}
            elif isinstance(n, ast.Lambda):
                own |= {a_.arg for a_ in n.args.posonlyargs + n.args.args + n.args.kwonlyargs}
        return {n.id for n in ast.walk(e) if isinstance(n, ast.Name) and isinstance(n.ctx, ast.Load)} - own

    def stores(t) -> set:
        return {n.id for n in ast.walk(t) if isinstance(n, ast.Name) and isinstance(n.ctx, (ast.Store, ast.Del))}

    def run(block: list, d: set) -> set | None:
        """returns the names definitely assigned after the block, or None when the block never falls through"""
        d = set(d)
        for st in block:
            if isinstance(st, (ast.Assign, ast.AnnAssign, ast.AugAssign)):
                val = st.value
                live.update(reads(val) - d)
                tg = st.targets if isinstance(st, ast.Assign) else [st.target]
                for t in tg:
                    if isinstance(st, ast.AugAssign):
                        live.update(reads(ast.Expr(value=ast.Name(id=t.id, ctx=ast.Load()))) - d if isinstance(t, ast.Name) else reads(t) - d)
                    # subscripts / attributes on the left read their base
                    for n in ast.walk(t):
                        if isinstance(n, ast.Name) and isinstance(n.ctx, ast.Load):
                            if n.id not in d:
                                live.add(n.id)
                    d |= {n.id for n in ast.walk(t) if isinstance(n, ast.Name) and isinstance(n.ctx, ast.Store)} if not isinstance(t, ast.Name) else {t.id}
            elif isinstance(st, (ast.Expr, ast.Return, ast.Raise, ast.Assert, ast.Delete)):
                live.update(reads(st) - d)
                if isinstance(st, (ast.Return, ast.Raise)):
                    return None
            elif isinstance(st, ast.If):
                live.update(reads(st.test) - d)
                d1, d2 = run(st.body, d), run(st.orelse, d)
                if d1 is None and d2 is None:
                    return None
                d = d2 if d1 is None else d1 if d2 is None else (d1 & d2)
            elif isinstance(st, (ast.For, ast.While)):
                if isinstance(st, ast.For):
                    live.update(reads(st.iter) - d)
                    inner = d | stores(st.target)
                else:
                    live.update(reads(st.test) - d)
                    inner = set(d)
                run(st.body, inner)
                r = run(st.orelse, d)
                d = d if r is None else (d & r) | d
            elif isinstance(st, ast.With):
                for it in st.items:
                    live.update(reads(it.context_expr) - d)
                    if it.optional_vars is not None:
                        d |= stores(it.optional_vars)
                r = run(st.body, d)
                if r is None:
                    return None
                d = r
            elif isinstance(st, ast.Try):
                r = run(st.body, d)
                for h in st.handlers:
                    run(h.body, d | ({h.name} if h.name else set()))
                run(st.orelse, r if r is not None else d)
                rf = run(st.finalbody, d)
                d = d if rf is None else rf
            elif isinstance(st, (ast.Break, ast.Continue)):
                return None
            elif isinstance(st, (ast.Pass, ast.Import, ast.ImportFrom, ast.Global, ast.Nonlocal)):
                pass
            else:
                live.update(reads(st) - d)
        return d

    run(stmts, defined)
    return live


_dal_cache: dict = {}


def _descent_as_loop(func) -> list:
    """`def f(x, ...): if isinstance(x, C): return f(x.attr, ...same other arguments...)` followed by the rest: the tail call only walks down
    the attribute, so the function is  `while isinstance(x, C): x = x.attr`  followed by the rest (the evaluator's `peel`)."""
    key = id(func.node)
    if key in _dal_cache:
        return _dal_cache[key][1]
    body = list(func.node.body)
    out = body
    i = 1 if body and isinstance(body[0], ast.Expr) and isinstance(body[0].value, ast.Constant) and isinstance(body[0].value.value, str) else 0
    a = func.node.args
    params = [x.arg for x in a.posonlyargs + a.args]
    if func.cls is None and i < len(body) and isinstance(body[i], ast.If) and not body[i].orelse and len(body[i].body) == 1 and not a.vararg and not a.kwarg:
        st, ret = body[i], body[i].body[0]
        t = st.test
        if isinstance(ret, ast.Return) and isinstance(ret.value, ast.Call) and isinstance(ret.value.func, ast.Name) and ret.value.func.id == func.node.name \
                and isinstance(t, ast.Call) and isinstance(t.func, ast.Name) and t.func.id == "isinstance" and len(t.args) == 2 and isinstance(t.args[0], ast.Name) \
                and t.args[0].id in params and not ret.value.keywords and len(ret.value.args) == len(params):
            x = t.args[0].id
            ok = True
            for prm, arg in zip(params, ret.value.args):
                if prm == x:
                    ok = ok and isinstance(arg, ast.Attribute) and isinstance(arg.value, ast.Name) and arg.value.id == x
                else:
                    ok = ok and isinstance(arg, ast.Name) and arg.id == prm
            if ok:
                attr = ret.value.args[params.index(x)]
                step = ast.Assign(targets=[ast.Name(id=x, ctx=ast.Store())], value=attr, lineno=ret.lineno, col_offset=0)
                loop = ast.While(test=t, body=[step], orelse=[], lineno=st.lineno, col_offset=st.col_offset)
                ast.fix_missing_locations(loop)
                out = body[:i] + [loop] + body[i + 1:]
    _dal_cache[key] = (func.node, out)
    return out


_wi_cache: dict = {}


def _names_in(nodes) -> set:
    out = set()
    for n in nodes:
        for m in ast.walk(n):
            if isinstance(m, ast.Name):
                out.add(m.id)
    return out


def _while_idioms(stmts: list) -> list:
    """Two ways of writing a `for` loop with `while`:
       * draining a list:        while L: x = L.pop() ; BODY          (BODY does not touch L, L is not looked at afterwards)
                                 =  for x in reversed(L): BODY        (pop(0) / popleft(): for x in L)
       * the iterator protocol:  it = iter(X) ... while True: try: x = next(it) except StopIteration: break|return E ; BODY
                                 =  for x in X: BODY  [; return E]
    One spelling (the for loop) is kept."""
    key = tuple(id(x) for x in stmts)
    if key in _wi_cache:
        return _wi_cache[key][1]
    out = []
    changed = False
    iters: dict[str, ast.expr] = {}  # name -> X for `name = iter(X)` seen so far in this block
    for i, st in enumerate(stmts):
        new = None
        if isinstance(st, ast.Assign) and len(st.targets) == 1 and isinstance(st.targets[0], ast.Name) and isinstance(st.value, ast.Call) \
                and isinstance(st.value.func, ast.Name) and st.value.func.id == "iter" and len(st.value.args) == 1 and not st.value.keywords:
            iters[st.targets[0].id] = st.value.args[0]
        if isinstance(st, ast.While) and not st.orelse and st.body:
            first, rest = st.body[0], st.body[1:]
            later = stmts[i + 1:]
            # ---- drain
            if isinstance(st.test, ast.Name) and isinstance(first, ast.Assign) and len(first.targets) == 1 and isinstance(first.value, ast.Call) \
                    and isinstance(first.value.func, ast.Attribute) and isinstance(first.value.func.value, ast.Name) and first.value.func.value.id == st.test.id \
                    and first.value.func.attr in ("pop", "popleft") and not first.value.keywords:
                L = st.test.id
                args = first.value.args
                front = first.value.func.attr == "popleft" or (len(args) == 1 and isinstance(args[0], ast.Constant) and args[0].value == 0)
                back = first.value.func.attr == "pop" and not args
                if (front or back) and L not in _names_in(rest) and L not in _names_in(later):
                    src = ast.Name(id=L, ctx=ast.Load())
                    it_ = src if front else ast.Call(func=ast.Name(id="reversed", ctx=ast.Load()), args=[src], keywords=[])
                    new = [ast.For(target=first.targets[0], iter=it_, body=rest or [ast.Pass()], orelse=[], type_comment=None)]
            # ---- iterator protocol
            if new is None and isinstance(st.test, ast.Constant) and st.test.value is True and isinstance(first, ast.Try) and len(first.body) == 1 \
                    and len(first.handlers) == 1 and not first.orelse and not first.finalbody:
                a, h = first.body[0], first.handlers[0]
                if isinstance(a, ast.Assign) and len(a.targets) == 1 and isinstance(a.value, ast.Call) and isinstance(a.value.func, ast.Name) \
                        and a.value.func.id == "next" and len(a.value.args) == 1 and isinstance(a.value.args[0], ast.Name) and a.value.args[0].id in iters \
                        and isinstance(h.type, ast.Name) and h.type.id == "StopIteration" and len(h.body) == 1 and isinstance(h.body[0], (ast.Break, ast.Return)):
                    itn = a.value.args[0].id
                    if itn not in _names_in(rest) and itn not in _names_in(later):
                        loop = ast.For(target=a.targets[0], iter=iters[itn], body=rest or [ast.Pass()], orelse=[], type_comment=None)
                        new = [loop] + ([h.body[0]] if isinstance(h.body[0], ast.Return) else [])
            # ---- peeling the head off a sequence:  while X: a, X = X[0], X[1:] ; BODY   =   for i in range(len(X0)): a = X0[i]; X = X0[i+1:]; BODY
            if new is None:
                new = _head_peel(st, later)
        if new is not None:
            for n_ in new:
                ast.copy_location(n_, st)
                ast.fix_missing_locations(n_)
            out.extend(new)
            changed = True
        else:
            out.append(st)
    res = out if changed else stmts
    _wi_cache[key] = (stmts, res)
    return res


_hp_counter = [0]


def _head_peel(st: ast.While, later: list):
    """`while X:` / `while len(X) > 0:` whose body starts with `a, X = X[0], X[1:]` (or the two assignments one after the other) and does not
    assign X again: the positional loop over the sequence X held on entry."""
    t = st.test
    X = None
    if isinstance(t, ast.Name):
        X = t.id
    elif isinstance(t, ast.Call) and isinstance(t.func, ast.Name) and t.func.id == "len" and len(t.args) == 1 and isinstance(t.args[0], ast.Name) and not t.keywords:
        X = t.args[0].id
    elif isinstance(t, ast.Compare) and len(t.ops) == 1 and isinstance(t.left, ast.Call) and isinstance(t.left.func, ast.Name) and t.left.func.id == "len" \
            and len(t.left.args) == 1 and isinstance(t.left.args[0], ast.Name) and isinstance(t.comparators[0], ast.Constant):
        c = t.comparators[0].value
        if (isinstance(t.ops[0], (ast.Gt, ast.NotEq)) and c == 0 and c is not False) or (isinstance(t.ops[0], ast.GtE) and c == 1 and c is not True):
            X = t.left.args[0].id
    if X is None or not st.body:
        return None

    def is_head(e):
        return isinstance(e, ast.Subscript) and isinstance(e.value, ast.Name) and e.value.id == X and isinstance(e.slice, ast.Constant) and e.slice.value == 0 \
            and e.slice.value is not False

    def is_tail(e):
        return isinstance(e, ast.Subscript) and isinstance(e.value, ast.Name) and e.value.id == X and isinstance(e.slice, ast.Slice) and e.slice.upper is None \
            and e.slice.step is None and isinstance(e.slice.lower, ast.Constant) and e.slice.lower.value == 1 and e.slice.lower.value is not True

    first = st.body[0]
    head_target = None
    used = 0
    if isinstance(first, ast.Assign) and len(first.targets) == 1 and isinstance(first.targets[0], ast.Tuple) and isinstance(first.value, ast.Tuple) \
            and len(first.targets[0].elts) == 2 and len(first.value.elts) == 2:
        (ta, tb), (va, vb) = first.targets[0].elts, first.value.elts
        if isinstance(tb, ast.Name) and tb.id == X and isinstance(ta, ast.Name) and ta.id != X and is_head(va) and is_tail(vb):
            head_target, used = ta, 1
    elif len(st.body) >= 2 and isinstance(first, ast.Assign) and len(first.targets) == 1 and isinstance(first.targets[0], ast.Name) and first.targets[0].id != X \
            and is_head(first.value):
        second = st.body[1]
        if isinstance(second, ast.Assign) and len(second.targets) == 1 and isinstance(second.targets[0], ast.Name) and second.targets[0].id == X and is_tail(second.value):
            head_target, used = first.targets[0], 2
    if head_target is None:
        return None
    rest = st.body[used:]
    wrapper = ast.Module(body=rest, type_ignores=[])
    for n in ast.walk(wrapper):
        if isinstance(n, ast.Name) and n.id == X and isinstance(n.ctx, (ast.Store, ast.Del)):
            return None
        if isinstance(n, ast.Call) and isinstance(n.func, ast.Attribute) and isinstance(n.func.value, ast.Name) and n.func.value.id == X and n.func.attr in MUTATORS:
            return None
        if isinstance(n, (ast.Break, ast.Continue)) and X in _names_in(later):
            return None
    _hp_counter[0] += 1
    seq, idx = f"__seq{_hp_counter[0]}", f"__pos{_hp_counter[0]}"
    ld = lambda n_: ast.Name(id=n_, ctx=ast.Load())  # noqa: E731
    pre = ast.Assign(targets=[ast.Name(id=seq, ctx=ast.Store())], value=ld(X))
    a1 = ast.Assign(targets=[head_target], value=ast.Subscript(value=ld(seq), slice=ld(idx), ctx=ast.Load()))
    a2 = ast.Assign(targets=[ast.Name(id=X, ctx=ast.Store())], value=ast.Subscript(
        value=ld(seq), slice=ast.Slice(lower=ast.BinOp(left=ld(idx), op=ast.Add(), right=ast.Constant(value=1)), upper=None, step=None), ctx=ast.Load()))
    loop = ast.For(target=ast.Name(id=idx, ctx=ast.Store()), iter=ast.Call(func=ld("range"), args=[ast.Call(func=ld("len"), args=[ld(seq)], keywords=[])], keywords=[]),
                   body=[a1, a2] + (rest or [ast.Pass()]), orelse=[], type_comment=None)
    out = [pre, loop]
    if X in _names_in(later):
        out.append(ast.Assign(targets=[ast.Name(id=X, ctx=ast.Store())], value=ast.Subscript(
            value=ld(seq), slice=ast.Slice(lower=ast.Call(func=ld("len"), args=[ld(seq)], keywords=[]), upper=None, step=None), ctx=ast.Load())))
    return out


def _emptiness_form(c: Term) -> Term:
    """`if xs` / `if set(xs)` / `if list(xs)` / `if sorted(xs)` / `if frozenset(xs)` ask the same question: is there an element"""
    neg = False
    inner = c
    if inner[0] == "not" and len(inner) == 2 and is_term(inner[1]):
        neg, inner = True, inner[1]
    if inner[0] in ("truth", "nonempty") and len(inner) == 2 and is_term(inner[1]):
        t = inner[1]
        ch = False
        while True:
            if t[0] == "setof" and len(t) >= 2 and is_term(t[1]):
                t, ch = t[1], True
            elif t[0] == "call" and t[1] in ("set", "frozenset", "list", "tuple", "sorted", "reversed") and len(t[2]) == 1 and is_term(t[2][0]):
                t, ch = t[2][0], True
            elif t[0] == "comp" and t[1] in ("list", "gen") and len(t) > 3:
                t, ch = ("comp", "set") + tuple(t[2:]), True
            else:
                break
        if ch:
            r = (inner[0], t)
            return ("not", r) if neg else r
    return c


_rab_cache: dict = {}


def _returns_as_breaks(stmts: list) -> list:
    """`for ..: .. return E` followed directly by `return E` (the same expression, no for-else): leaving the loop by that return is leaving it by
    `break` and running into the return that follows.  One spelling is kept (break), so both describe the same loop."""
    key = tuple(id(x) for x in stmts)
    if key in _rab_cache:
        return _rab_cache[key][1]
    out = list(stmts)
    changed = False
    for i, st in enumerate(stmts[:-1]):
        nx = stmts[i + 1]
        if not (isinstance(st, ast.For) and not st.orelse and isinstance(nx, ast.Return) and nx.value is not None):
            continue
        want = ast.dump(nx.value)
        hit = False

        def rewrite(body: list) -> list:
            nonlocal hit
            res = []
            for b in body:
                if isinstance(b, ast.Return) and b.value is not None and ast.dump(b.value) == want:
                    hit = True
                    res.append(ast.copy_location(ast.Break(), b))
                elif isinstance(b, ast.If):
                    nb = ast.If(test=b.test, body=rewrite(b.body), orelse=rewrite(b.orelse))
                    res.append(ast.copy_location(nb, b))
                else:
                    res.append(b)  # inner loops, try, with: a break there would leave something else
            return res

        nb_ = rewrite(st.body)
        if hit:
            out[i] = ast.copy_location(ast.For(target=st.target, iter=st.iter, body=nb_, orelse=[], type_comment=None), st)
            changed = True
    res_ = out if changed else stmts
    _rab_cache[key] = (stmts, res_)  # keeps `stmts` alive so the ids stay unique
    return res_


def _escapes_in_body(body: list, name: str) -> bool:
    """Is `name` both CHANGED IN PLACE by the loop body (add / discard / remove / update / append / pop / clear, an augmented assignment) and handed
    to a call as an argument in that body?"""
    mutated = False
    passed = False

    def _log_stmt(x):
        return isinstance(x, ast.Expr) and isinstance(x.value, ast.Call) and (
            (isinstance(x.value.func, ast.Attribute) and x.value.func.attr in ("debug", "info", "warning", "error", "exception", "critical", "log", "warn"))
            or (isinstance(x.value.func, ast.Name) and x.value.func.id == "print"))

    def _walk(x):
        # the arguments of a logging / print statement are looked at by nobody
        if _log_stmt(x):
            return
        yield x
        for ch in ast.iter_child_nodes(x):
            yield from _walk(ch)

    for st in body:
        for n in _walk(st):
            if isinstance(n, ast.Call):
                if isinstance(n.func, ast.Attribute) and isinstance(n.func.value, ast.Name) and n.func.value.id == name \
                        and n.func.attr in ("add", "discard", "remove", "update", "append", "extend", "pop", "clear", "difference_update", "intersection_update", "insert"):
                    mutated = True
                for a_ in list(n.args) + [k.value for k in n.keywords]:
                    if isinstance(a_, ast.Name) and a_.id == name:
                        passed = True
            if isinstance(n, ast.AugAssign) and isinstance(n.target, ast.Name) and n.target.id == name:
                mutated = True
    return mutated and passed


def _tests_read_name(body: list, name: str) -> bool:
    """Does the loop body decide by MEMBERSHIP IN THE SET IT IS FILLING whether to add OTHER elements to it?
    (`if s not in seen: seen.update(f(s))`, `if n in rv: rv |= preds(n)`).  Whether a later element passes the test then depends on what earlier
    iterations added, and a closed comprehension over the value at loop entry is wrong.  The de-duplication idiom (`if x not in seen: seen.add(x)`:
    the element tested is the element added) and tests of one entry of a table (`values[v]`) are not of this kind."""
    tested = []
    for st in body:
        for n in ast.walk(st):
            tests = []
            if isinstance(n, (ast.If, ast.While, ast.IfExp, ast.Assert)):
                tests.append(n.test)
            elif isinstance(n, ast.comprehension):
                tests.extend(n.ifs)
            for t in tests:
                for c in ast.walk(t):
                    if isinstance(c, ast.Compare) and len(c.ops) == 1 and isinstance(c.ops[0], (ast.In, ast.NotIn)) \
                            and isinstance(c.comparators[0], ast.Name) and c.comparators[0].id == name:
                        tested.append(ast.dump(c.left))
    if not tested:
        return False
    for st in body:
        for n in ast.walk(st):
            if isinstance(n, ast.Call) and isinstance(n.func, ast.Attribute) and isinstance(n.func.value, ast.Name) and n.func.value.id == name:
                if n.func.attr in ("update", "extend", "union", "intersection_update", "difference_update"):
                    return True
                if n.func.attr in ("add", "append") and n.args and ast.dump(n.args[0]) not in tested:
                    return True
            if isinstance(n, ast.AugAssign) and isinstance(n.target, ast.Name) and n.target.id == name:
                return True
            if isinstance(n, ast.Assign) and any(isinstance(t_, ast.Name) and t_.id == name for t_ in n.targets) \
                    and any(isinstance(x, ast.Name) and x.id == name for x in ast.walk(n.value)):
                return True
    return False


@dataclass
class State:
    env: dict[str, Term]
    conds: tuple = ()
    notes: tuple = ()

    def fork(self) -> "State":
        return State(dict(self.env), self.conds, self.notes)

    def assume(self, c: Term) -> "State":
        s = self.fork()
        if c != TRUE:
            s.conds = add_cond(s.conds, c)
        return s


class Budget(Exception):
    pass


def add_cond(conds: tuple, c: Term) -> tuple:
    """Append a condition unless an alpha-equivalent one is already present."""
    if c == TRUE:
        return conds
    ca = alpha_normalise_bound(c)
    for d in conds:
        if d == c or alpha_normalise_bound(d) == ca:
            return conds
    return conds + (c,)


def add_conds(conds: tuple, more: tuple) -> tuple:
    for c in more:
        conds = add_cond(conds, c)
    return conds


class Evaluator:
    def __init__(
        self,
        model: Model,
        primitives: set[str] | None = None,
        max_depth: int = 10,
        max_paths: int = 4000,
        prim_methods: set[str] | None = None,
        opaque_classes: set[str] | None = None,
    ) -> None:
        self.model = model
        self.primitives = set(primitives or ())  # qualified names of functions / classes not to inline
        self.prim_methods = set(prim_methods or ())  # bare method names never inlined (receiver kept)
        self.opaque_classes = set(opaque_classes or ())
        self.max_depth = max_depth
        self.recurse_as: set = set()  # calls to these are recursion points (used when a reference definition calls the routine it defines)
        self.max_paths = max_paths
        self.types: dict[Term, Any] = {}
        self.declared: set = set()  # terms typed by a LOCAL annotation only (see AnnAssign): isinstance() on them is not folded
        self._fresh = itertools.count()
        self.stack: list[str] = []
        self.unknowns: list[tuple[str, int, str]] = []
        self.inlined: set[str] = set()
        self.calls_resolved = 0
        self.calls_unresolved = 0
        self.exact_terms: set = set()
        self.loop_once = False  # see _exec_for_generic

    # ------------------------------------------------------------------ types
    def set_type(self, t: Term, typ: Any) -> Term:
        if typ is not None:
            self.types[t] = typ
        return t

    def parse_ann(self, m: Module, a: ast.expr | None) -> Any:
        if a is None:
            return None
        if isinstance(a, ast.Constant) and isinstance(a.value, str):
            try:
                a = ast.parse(a.value, mode="eval").body
            except SyntaxError:
                return None
        if isinstance(a, ast.Constant) and a.value is None:
            return "none"
        if isinstance(a, ast.Name):
            if a.id in ("str", "int", "bool", "float"):
                return a.id
            if a.id == "None":
                return "none"
            r = self.model.resolve_name(m, a.id)
            if isinstance(r, Cls):
                return ("cls", r.qname)
            if isinstance(r, tuple) and r[0] == "const":
                # type alias
                return self.parse_ann(r[1], r[2])
            return None
        if isinstance(a, ast.Attribute):
            q = dotted(a)
            if q in ("nx.DiGraph", "networkx.DiGraph"):
                return "nx.DiGraph"
            if q in ("nx.Graph", "networkx.Graph"):
                return "nx.Graph"
            return None
        if isinstance(a, ast.Subscript):
            base = a.value.id if isinstance(a.value, ast.Name) else (a.value.attr if isinstance(a.value, ast.Attribute) else None)
            inner = a.slice
            first = inner.elts[0] if isinstance(inner, ast.Tuple) and inner.elts else inner
            if base in ("set", "Set", "AbstractSet", "MutableSet"):
                return ("set", self.parse_ann(m, first))
            if base in ("frozenset", "FrozenSet"):
                return ("frozenset", self.parse_ann(m, first))
            if base in ("list", "List", "Sequence"):
                return ("list", self.parse_ann(m, first))
            if base in ("tuple", "Tuple"):
                return ("tuple", self.parse_ann(m, first))
            if base in ("Iterable", "Collection", "Iterator", "NodeView"):
                return ("iter", self.parse_ann(m, first))
            if base in ("dict", "Dict", "Mapping", "defaultdict"):
                return ("dict", None, None)
            if base in ("Optional",):
                return ("union", (self.parse_ann(m, first), "none"))
            if base == "type":
                return None
            return None
        if isinstance(a, ast.BinOp) and isinstance(a.op, ast.BitOr):
            parts = []
            for side in (a.left, a.right):
                p = self.parse_ann(m, side)
                if isinstance(p, tuple) and p and p[0] == "union":
                    parts.extend(p[1])
                else:
                    parts.append(p)
            return ("union", tuple(parts))
        return None

    def typeof(self, t: Term) -> Any:
        if t in self.types:
            return self.types[t]
        h = t[0]
        if h == "rec":
            return ("cls", t[1])
        if h == "const":
            v = t[1]
            if v is None:
                return "none"
            return type(v).__name__
        if h == "setof" and len(t) == 3:
            return ("frozenset", self.elem_type(t))
        if h in ("union", "inter", "diff", "setof", "setlit", "empty"):
            return ("set", self.elem_type(t))
        if h == "tuplelit":
            return ("tuple", None)
        if h == "listlit":
            return ("list", None)
        if h == "dictlit":
            return ("dict", None, None)
        if h == "concat":
            return self.typeof(t[1])
        if h == "slice":
            return self.typeof(t[1])
        if h == "call" and t[1] == "next" and len(t) >= 3 and len(t[2]) == 2 and is_term(t[2][0]) and t[2][0][0] == "comp" and t[2][1] == NONE:
            # next((x for x in S if c), None): an element of the generator, or None -- a use behind an `is None` test is an element
            et = self.elem_type(t[2][0])
            if et is not None:
                return ("union", (et, "none")) if not (isinstance(et, tuple) and et and et[0] == "union") else et
        if h == "comp":
            if t[1] == "dict":
                return ("dict", None, None)
            return ({"set": "set", "list": "list", "gen": "iter"}[t[1]], self.elem_type(t))
        if h == "attr":
            bt = self.typeof(t[1])
            if isinstance(bt, tuple) and bt[0] == "cls":
                c = self.model.classes.get(bt[1])
                if c is not None:
                    for k in c.mro():
                        if t[2] in k.fields:
                            return self.parse_ann(k.module, k.fields[t[2]])
                        if t[2] in k.methods and k.methods[t[2]].is_property:
                            f = k.methods[t[2]]
                            return self.parse_ann(f.module, f.node.returns)
                    # the attribute is declared by subclasses only (the access sits under an isinstance test):
                    # class-hierarchy analysis -- accept when every declaring subclass gives the same annotation
                    anns = {self.parse_ann(k.module, k.fields[t[2]]) for k in c.all_subclasses() if t[2] in k.fields}
                    anns.discard(None)
                    if len(anns) == 1:
                        return next(iter(anns))
            return None
        if h == "ite":
            a, b = self.typeof(t[2]), self.typeof(t[3])
            return a if a == b else None
        if h == "index" and t[2][0] == "const" and isinstance(t[2][1], int):
            et = self.elem_type(t[1])
            if et is not None and not (isinstance(et, tuple) and et and et[0] == "pair"):
                return et
        if h == "call" and t[1] == "next" and t[2]:
            # next(iterable[, default]): an element of the iterable (the default case is tested separately by `is None`)
            src = t[2][0]
            while src[0] == "call" and src[1] == "iter" and len(src[2]) == 1:
                src = src[2][0]
            et = self.elem_type(src)
            if et is not None:
                return et if len(t[2]) == 1 or t[2][1] != NONE else ("union", (et, "none"))
        if h == "call" and t[1] in ("tuple", "list", "sorted", "dict", "str", "int", "bool", "len"):
            return {"tuple": ("tuple", None), "list": ("list", None), "sorted": ("list", None), "dict": ("dict", None, None),
                    "str": "str", "int": "int", "bool": "bool", "len": "int"}[t[1]]
        if h == "len":
            return "int"
        if h == "fstr":
            return "str"
        if h == "mut":
            return self.typeof(t[1])
        if h == "meth" and t[2] in ("pop",) and not t[3]:
            rt = self.typeof(t[1])
            if isinstance(rt, tuple) and rt and rt[0] in ("set", "frozenset", "list") and len(rt) > 1:
                return rt[1]
        if h == "orelse":
            return self.typeof(t[1]) or self.typeof(t[2])
        return None

    def elem_type(self, t: Term, depth: int = 0) -> Any:
        """Element type of a collection term, where it follows from the element types of the collections it is built from."""
        if depth > 12:
            return None
        h = t[0]
        if t in self.types:
            typ = self.types[t]
            if isinstance(typ, tuple) and typ and typ[0] in ("set", "frozenset", "list", "iter", "tuple") and len(typ) > 1:
                return typ[1]
            return None
        if h in ("setof", "copyof"):
            return self.elem_type(t[1], depth + 1)
        if h == "accum" and t[1] in ("concat", "union") and len(t) > 3 and t[3][0] in ("listlit", "setlit") and len(t[3][1]) == 1:
            # a list / set filled one element per iteration: its elements have the type of what is added
            return self.typeof(t[3][1][0])
        if h in ("inter", "diff"):
            return self.elem_type(t[1], depth + 1)
        if h == "union":
            ts = [self.elem_type(x, depth + 1) for x in t[1:]]
            return ts[0] if ts and all(x == ts[0] for x in ts) else None
        if h == "comp" and t[1] in ("set", "list", "gen") and len(t[3]) == 1 and t[2] == t[3][0][0] and t[2][0] == "var":
            # a filter: {x for x in S if ...}
            return self.elem_type(t[3][0][1], depth + 1)
        if h == "call" and t[1] in ("sorted", "list", "tuple", "set", "frozenset", "reversed", "iter") and len(t[2]) == 1 and is_term(t[2][0]):
            return self.elem_type(t[2][0], depth + 1)  # the same elements, rearranged
        if h in ("attr", "call", "meth"):
            typ = self.typeof(t) if h == "attr" else None
            if isinstance(typ, tuple) and typ and typ[0] in ("set", "frozenset", "list", "iter", "tuple") and len(typ) > 1:
                return typ[1]
        if (h == "meth" and not t[3] and not t[4]) or h == "attr":
            # the repository's mixed graph holds Variables: its nodes, and both endpoints of the edges of either component
            name, owner = t[2], t[1]
            if name in ("nodes", "edges"):
                if owner[0] == "attr" and owner[2] in ("directed", "undirected"):
                    owner = owner[1]
                    if self.typeof(owner) == ("cls", "y0.graph.NxMixedGraph"):
                        return ("cls", "y0.dsl.Variable") if name == "nodes" else ("pair", ("cls", "y0.dsl.Variable"))
                elif name == "nodes" and self.typeof(owner) == ("cls", "y0.graph.NxMixedGraph"):
                    return ("cls", "y0.dsl.Variable")
        return None

    def cls_of(self, t: Term) -> Cls | None:
        typ = self.typeof(t)
        if isinstance(typ, tuple) and typ and typ[0] == "cls":
            return self.model.classes.get(typ[1])
        return None

    def is_setlike(self, t: Term) -> bool | None:
        typ = self.typeof(t)
        if typ is None:
            return None
        if isinstance(typ, tuple):
            if typ[0] in ("set", "frozenset"):
                return True
            if typ[0] == "union":
                vals = [isinstance(p, tuple) and p and p[0] in ("set", "frozenset") for p in typ[1] if p != "none"]
                if vals and all(vals):
                    return True
                if not any(vals):
                    return False
                return None
            return False
        return False

    # ------------------------------------------------------------------ entry
    def fresh(self, hint: str = "b") -> Term:
        return ("var", f"%{hint}{next(self._fresh)}")

    def _eval_simple_default(self, m: Module, d: ast.expr) -> Term:
        if isinstance(d, ast.Constant):
            return const(d.value)
        return unknown("default:" + unparse(d), getattr(d, "lineno", 0))

    # ------------------------------------------------------------------ statements
    def exec_block(self, stmts: list[ast.stmt], state: State, func: Func):
        """Returns list of (state, status, value, line); status in fall/return/raise/break/continue."""
        live = [state]
        done = []
        stmts = _returns_as_breaks(_while_idioms(stmts))
        for st in stmts:
            nxt = []
            for s in live:
                for out in self.exec_stmt(st, s, func):
                    if out[1] == "fall":
                        nxt.append(out[0])
                    else:
                        done.append(out)
            live = nxt
            if len(live) + len(done) > self.max_paths:
                raise Budget(f"path budget exceeded in {func.qname}")
            if not live:
                break
        return done + [(s, "fall", None, 0) for s in live]

    max_steps = 40000

    def exec_stmt(self, st: ast.stmt, state: State, func: Func):
        self._steps = getattr(self, "_steps", 0) + 1
        if self._steps > self.max_steps:
            raise Budget(f"step budget exceeded while evaluating {func.qname} (combinatorial number of paths)")
        line = getattr(st, "lineno", 0)
        if isinstance(st, ast.Expr):
            if isinstance(st.value, ast.Constant):
                return [(state, "fall", None, line)]
            if isinstance(st.value, (ast.Yield, ast.YieldFrom)):
                return self._exec_yield(st.value, state, func)
            outs = []
            for s, v in self.eval(st.value, state, func, stmt_ctx=True):
                if v[0] == "bottom":
                    outs.append((s, "raise", v[1], line))
                else:
                    outs.append((s, "fall", None, line))
            return outs
        if isinstance(st, ast.Return):
            if st.value is None:
                return [(state, "return", NONE, line)]
            outs = []
            for s, v in self.eval(st.value, state, func):
                if v[0] == "bottom":
                    outs.append((s, "raise", v[1], line))
                else:
                    outs.append((s, "return", v, line))
            return outs
        if isinstance(st, ast.Raise):
            if st.exc is None:
                return [(state, "raise", ("reraise",), line)]
            outs = []
            for s, v in self.eval(st.exc, state, func):
                outs.append((s, "raise", v, line))
            return outs
        if isinstance(st, ast.Assign):
            outs = []
            for s, v in self.eval(st.value, state, func):
                if v[0] == "bottom":
                    outs.append((s, "raise", v[1], line))
                    continue
                s2 = s.fork()
                for tgt in st.targets:
                    self.assign(tgt, v, s2, func)
                outs.append((s2, "fall", None, line))
            return outs
        if isinstance(st, ast.AnnAssign):
            if st.value is None:
                return [(state, "fall", None, line)]
            outs = []
            for s, v in self.eval(st.value, state, func):
                if v[0] == "bottom":
                    outs.append((s, "raise", v[1], line))
                    continue
                s2 = s.fork()
                self.assign(st.target, v, s2, func)
                if isinstance(st.target, ast.Name):
                    typ = self.parse_ann(func.module, st.annotation)
                    if typ is not None and v not in self.types and v[0] not in ("const", "rec", "listlit", "tuplelit", "setlit", "dictlit", "empty"):
                        self.set_type(v, typ)
                        # a LOCAL annotation is a claim of the author, good for resolving methods; an isinstance() test on the value (or on its
                        # elements) is there precisely because nothing enforces it, and is not decided from it
                        if self._caller_supplied(v):
                            self.declared.add(v)
                outs.append((s2, "fall", None, line))
            return outs
        if isinstance(st, ast.AugAssign):
            outs = []
            cur_expr = ast.copy_location(
                ast.BinOp(left=_load(st.target), op=st.op, right=st.value), st
            )
            ast.fix_missing_locations(cur_expr)
            for s, v in self.eval(cur_expr, state, func):
                s2 = s.fork()
                self.assign(st.target, v, s2, func)
                outs.append((s2, "fall", None, line))
            return outs
        if isinstance(st, ast.If):
            if (not st.orelse and len(st.body) == 1 and isinstance(st.body[0], ast.For) and not st.body[0].orelse
                    and _guard_is_vacuous(st.test, st.body[0].iter)):
                # `if len(X) > 1: for a, b in combinations(X, 2): ...`: when the test fails the loop has nothing to visit
                return self.exec_for(st.body[0], state, func)
            outs = []
            tests = []
            for s, c in self.eval(st.test, state, func):
                if any(x[0] == "bottom" for x in subterms(c)):
                    # the test itself can raise: those cases leave the statement by the exception, the others go on without them
                    pc, found = self._split_bottoms(c)
                    for cx, exc in found:
                        s_r = s
                        for x in cx:
                            s_r = s_r.assume(self.as_cond(x))
                        outs.append((s_r, "raise", exc, line))
                        s = s.assume(self.negate(self.mk_bool("and", [self.as_cond(x) for x in cx]))) if cx else None
                        if s is None:
                            break
                    if s is None or pc is None:
                        continue
                    c = pc
                tests.append((s, c))
            for s, c in tests:
                c = self.as_cond(c)
                if c == TRUE:
                    outs.extend(self.exec_block(st.body, s, func))
                elif c == FALSE:
                    outs.extend(self.exec_block(st.orelse, s, func) if st.orelse else [(s, "fall", None, line)])
                else:
                    outs.extend(self.exec_block(st.body, s.assume(c), func))
                    neg = self.negate(c)
                    if st.orelse:
                        outs.extend(self.exec_block(st.orelse, s.assume(neg), func))
                    else:
                        outs.append((s.assume(neg), "fall", None, line))
            return outs
        if isinstance(st, ast.For):
            return self.exec_for(st, state, func)
        if isinstance(st, ast.While):
            peel = self._peel_loop(st, state, func)
            if peel is not None:
                return peel
            rec = self._while_as_recursion(st, state, func)
            if rec is not None:
                return rec
            s2 = state.fork()
            self._havoc_assigned(st.body, s2, "while", line)
            return [(s2, "fall", None, line)]
        if isinstance(st, ast.Match):
            ds = self._desugar_match(st, func)
            if ds is not None:
                return self.exec_block(ds, state, func)
        if isinstance(st, ast.Try):
            return self.exec_try(st, state, func)
        if isinstance(st, ast.Pass):
            return [(state, "fall", None, line)]
        if isinstance(st, ast.Break):
            return [(state, "break", None, line)]
        if isinstance(st, ast.Continue):
            return [(state, "continue", None, line)]
        if isinstance(st, (ast.Import, ast.ImportFrom)):
            s2 = state.fork()
            for a in st.names:
                nm = a.asname or a.name.split(".")[0]
                s2.env[nm] = ("external", (getattr(st, "module", None) or "") + "." + a.name if isinstance(st, ast.ImportFrom) else a.name)
            return [(s2, "fall", None, line)]
        if isinstance(st, ast.FunctionDef):
            s2 = state.fork()
            s2.env[st.name] = ("localdef", st.name, id(st))
            self._localdefs[id(st)] = (st, func)
            return [(s2, "fall", None, line)]
        if isinstance(st, ast.Assert):
            return [(state, "fall", None, line)]
        if isinstance(st, ast.Delete):
            s2 = state.fork()
            for t in st.targets:
                if isinstance(t, ast.Subscript) and isinstance(t.value, ast.Name) and t.value.id in s2.env:
                    k = self.eval1(t.slice, s2, func)
                    s2.env[t.value.id] = self._add_effect(s2.env[t.value.id], ("delitem", k))
                elif isinstance(t, ast.Subscript) and isinstance(t.value, ast.Name):
                    s2.env[t.value.id] = unknown("del item", line)
            return [(s2, "fall", None, line)]
        if isinstance(st, ast.With):
            return self.exec_block(st.body, state, func)
        if isinstance(st, (ast.Global, ast.Nonlocal)):
            return [(state, "fall", None, line)]
        self.unknowns.append((func.qname, line, type(st).__name__))
        return [(state, "fall", None, line)]

    _match_cache: dict = {}

    def _desugar_match(self, st: ast.Match, func: Func):
        """`match subject: case P1: ... case P2: ...` as the if / elif chain it abbreviates (class patterns with keyword or positional
        sub-patterns -- positions are the dataclass fields --, captures, `as`, literals, singletons, fixed-length sequences, alternatives
        without captures, wildcard, guards).  Returns None for pattern kinds it does not cover."""
        key = id(st)
        if key in self._match_cache:
            return self._match_cache[key][1]
        self._counter_m = getattr(self, "_counter_m", 0) + 1
        pre: list = []
        if isinstance(st.subject, ast.Name):
            subj: ast.expr = st.subject
        elif isinstance(st.subject, ast.Tuple):
            subj = st.subject  # matched element-wise, no tuple is built
        else:
            nm = f"__match{self._counter_m}"
            pre.append(ast.Assign(targets=[ast.Name(id=nm, ctx=ast.Store())], value=st.subject, lineno=st.lineno, col_offset=0))
            subj = ast.Name(id=nm, ctx=ast.Load())

        def load(e):
            return e

        def fields_of(cls_expr):
            nm_ = cls_expr.id if isinstance(cls_expr, ast.Name) else getattr(cls_expr, "attr", None)
            r = self.model.resolve_name(func.module, nm_) if isinstance(cls_expr, ast.Name) else None
            if isinstance(r, Cls):
                ma = None
                for k in r.mro():
                    for b in k.node.body:
                        if isinstance(b, ast.Assign) and any(isinstance(t_, ast.Name) and t_.id == "__match_args__" for t_ in b.targets) and isinstance(b.value, (ast.Tuple, ast.List)):
                            ma = [x.value for x in b.value.elts if isinstance(x, ast.Constant)]
                    if ma is not None:
                        break
                return ma if ma is not None else list(r.all_fields())
            return None

        def pat(p, e):
            """(list of condition expressions, list of binding statements) for pattern p against expression e, or None"""
            if isinstance(p, ast.MatchAs):
                if p.pattern is None:
                    return [], ([ast.Assign(targets=[ast.Name(id=p.name, ctx=ast.Store())], value=e)] if p.name else [])
                r = pat(p.pattern, e)
                if r is None:
                    return None
                return r[0], r[1] + ([ast.Assign(targets=[ast.Name(id=p.name, ctx=ast.Store())], value=e)] if p.name else [])
            if isinstance(p, ast.MatchValue):
                return [ast.Compare(left=e, ops=[ast.Eq()], comparators=[p.value])], []
            if isinstance(p, ast.MatchSingleton):
                if p.value is True:
                    return [e], []
                if p.value is False:
                    return [ast.UnaryOp(op=ast.Not(), operand=e)], []
                return [ast.Compare(left=e, ops=[ast.Is()], comparators=[ast.Constant(value=p.value)])], []
            if isinstance(p, ast.MatchClass):
                conds = [ast.Call(func=ast.Name(id="isinstance", ctx=ast.Load()), args=[e, p.cls], keywords=[])]
                binds: list = []
                names = list(p.kwd_attrs)
                subs = list(p.kwd_patterns)
                if p.patterns:
                    fl = fields_of(p.cls)
                    if fl is None or len(p.patterns) > len(fl):
                        return None
                    names = fl[:len(p.patterns)] + names
                    subs = list(p.patterns) + subs
                for a_, sp in zip(names, subs):
                    r = pat(sp, ast.Attribute(value=e, attr=a_, ctx=ast.Load()))
                    if r is None:
                        return None
                    conds += r[0]
                    binds += r[1]
                return conds, binds
            if isinstance(p, ast.MatchSequence):
                if any(isinstance(x, ast.MatchStar) for x in p.patterns):
                    return None
                if isinstance(e, ast.Tuple) and len(e.elts) == len(p.patterns):
                    conds, binds = [], []
                    for x, sub in zip(e.elts, p.patterns):
                        r = pat(sub, x)
                        if r is None:
                            return None
                        conds += r[0]
                        binds += r[1]
                    return conds, binds
                if isinstance(e, ast.Tuple):
                    return [ast.Constant(value=False)], []
                conds = [ast.Compare(left=ast.Call(func=ast.Name(id="len", ctx=ast.Load()), args=[e], keywords=[]), ops=[ast.Eq()],
                                     comparators=[ast.Constant(value=len(p.patterns))])]
                binds = []
                for i_, sub in enumerate(p.patterns):
                    r = pat(sub, ast.Subscript(value=e, slice=ast.Constant(value=i_), ctx=ast.Load()))
                    if r is None:
                        return None
                    conds += r[0]
                    binds += r[1]
                return conds, binds
            if isinstance(p, ast.MatchOr):
                alts = []
                for sub in p.patterns:
                    r = pat(sub, e)
                    if r is None or r[1]:
                        return None
                    alts.append(ast.BoolOp(op=ast.And(), values=r[0]) if len(r[0]) > 1 else (r[0][0] if r[0] else ast.Constant(value=True)))
                return [ast.BoolOp(op=ast.Or(), values=alts)], []
            return None

        chain = None
        tail_ref = None
        cases = []
        for case in st.cases:
            # alternatives that capture names: one case per alternative, same body
            if isinstance(case.pattern, ast.MatchOr):
                cases.extend(ast.match_case(pattern=alt, guard=case.guard, body=case.body) for alt in case.pattern.patterns)
            else:
                cases.append(case)
        for case in cases:
            r = pat(case.pattern, subj)
            if r is None:
                self._match_cache[key] = (st, None)
                return None
            conds, binds = r
            if case.guard is not None:
                guard = case.guard
                if binds:
                    # the guard may use the captures: they are replaced by what they capture
                    mp = {b.targets[0].id: b.value for b in binds if isinstance(b, ast.Assign) and isinstance(b.targets[0], ast.Name)}

                    class _Sub(ast.NodeTransformer):
                        def visit_Name(self, n):  # noqa: N802
                            return mp[n.id] if isinstance(n.ctx, ast.Load) and n.id in mp else n
                    import copy as _copy
                    guard = _Sub().visit(_copy.deepcopy(guard))
                conds = conds + [guard]
            test = ast.Constant(value=True) if not conds else (conds[0] if len(conds) == 1 else ast.BoolOp(op=ast.And(), values=conds))
            node = ast.If(test=test, body=binds + list(case.body), orelse=[])
            if chain is None:
                chain = node
            else:
                tail_ref.orelse = [node]
            tail_ref = node
        out = pre + ([chain] if chain is not None else [])
        for n_ in out:
            ast.copy_location(n_, st)
            ast.fix_missing_locations(n_)
            for sub_ in ast.walk(n_):
                if not hasattr(sub_, "lineno"):
                    sub_.lineno = st.lineno
                    sub_.col_offset = 0
        self._match_cache[key] = (st, out)
        return out

    def _while_as_recursion(self, st: ast.While, state: State, func: Func):
        """`def f(p): [x = p]; while c: BODY  ; TAIL`  where the loop is the first thing f does and BODY carries only parameters (or their
        aliases `x = p` set up just before the loop) from one iteration to the next: running the loop once more from the top is calling f
        again with the new values (tail recursion written as iteration).  One pass through BODY is executed: paths that `break` (or fail
        the test) go on to TAIL, paths that reach the end of BODY return f(new values).  Variables the body assigns before it reads them
        (temporaries of one iteration) are not carried."""
        node = func.node
        if st.orelse or func.is_generator:
            return None
        body = list(node.body)
        if body and isinstance(body[0], ast.Expr) and isinstance(body[0].value, ast.Constant) and isinstance(body[0].value.value, str):
            body = body[1:]
        lead = []
        tail = []
        seen = False
        for x in body:
            if x is st:
                seen = True
                continue
            (tail if seen else lead).append(x)
        if not seen:
            return None
        a = node.args
        if a.vararg or a.kwarg:
            return None
        pos_params = [x.arg for x in a.posonlyargs + a.args]
        kw_params = [x.arg for x in a.kwonlyargs]
        self_name = None
        if func.cls is not None and not func.is_staticmethod:
            if not pos_params:
                return None
            self_name, pos_params = pos_params[0], pos_params[1:]
        params = pos_params + kw_params
        alias: dict[str, str] = {}  # local name -> the parameter it stands for
        for x in lead:
            # only logging / assertions / `local = parameter` may come first
            if isinstance(x, ast.Assert):
                continue
            if isinstance(x, ast.Expr) and isinstance(x.value, ast.Call) and isinstance(x.value.func, ast.Attribute) \
                    and isinstance(x.value.func.value, ast.Name) and x.value.func.value.id in ("logger", "logging"):
                continue
            tgt = val = None
            if isinstance(x, ast.Assign) and len(x.targets) == 1:
                tgt, val = x.targets[0], x.value
            elif isinstance(x, ast.AnnAssign) and x.value is not None:
                tgt, val = x.target, x.value
            if isinstance(tgt, ast.Name) and isinstance(val, ast.Name) and val.id in params and tgt.id not in params and tgt.id not in alias \
                    and val.id not in alias.values():
                alias[tgt.id] = val.id
                continue
            return None
        assigned = set()
        comp_bound = set()
        for n in ast.walk(ast.Module(body=st.body, type_ignores=[])):
            if isinstance(n, ast.Name) and isinstance(n.ctx, (ast.Store, ast.Del)):
                assigned.add(n.id)
            elif isinstance(n, ast.comprehension):
                comp_bound |= {m.id for m in ast.walk(n.target) if isinstance(m, ast.Name)}
            elif isinstance(n, (ast.FunctionDef, ast.Lambda)):
                return None
        stmt_bound = set()
        for n in ast.walk(ast.Module(body=st.body, type_ignores=[])):
            if isinstance(n, (ast.Assign, ast.AugAssign, ast.AnnAssign, ast.For, ast.With, ast.NamedExpr)):
                tgts = n.targets if isinstance(n, ast.Assign) else [n.target] if not isinstance(n, ast.With) else [i.optional_vars for i in n.items if i.optional_vars is not None]
                for t_ in tgts:
                    stmt_bound |= {m.id for m in ast.walk(t_) if isinstance(m, ast.Name) and isinstance(m.ctx, ast.Store)}
            elif isinstance(n, ast.ExceptHandler) and n.name:
                stmt_bound.add(n.name)
        assigned = (assigned - comp_bound) | (assigned & stmt_bound)
        if self_name in assigned:
            return None
        live = _live_at_entry(st.body + [ast.Expr(value=st.test)], set())
        carried = {v for v in assigned if v in live}
        if not carried <= (set(params) | set(alias)):
            return None
        mentioned = {n.id for n in ast.walk(ast.Module(body=st.body + tail + [ast.Expr(value=st.test)], type_ignores=[])) if isinstance(n, ast.Name)}
        for loc, prm in alias.items():
            if loc in assigned and prm in mentioned:
                return None  # the parameter itself is still looked at while its stand-in moves on
            if prm in assigned:
                return None
        by_param = {prm: loc for loc, prm in alias.items()}
        # the parameters still hold the caller's values here (nothing before the loop assigns them)
        outs = []
        for s0, c in self.eval(st.test, state, func):
            c = self.as_cond(c)
            if c != TRUE:
                outs.append((s0.assume(self.negate(c)) if c != FALSE else s0, "fall", None, st.lineno))
            if c == FALSE:
                continue
            s1 = s0 if c == TRUE else s0.assume(c)
            for stt, status, val, ln in self.exec_block(st.body, s1.fork(), func):
                if status == "break":
                    outs.append((stt, "fall", None, ln))
                elif status in ("fall", "continue"):
                    def cur(p_):
                        nm = by_param.get(p_, p_)
                        return stt.env.get(nm, var(nm))
                    args = tuple(cur(p_) for p_ in pos_params)
                    kwargs = tuple(sorted((p_, cur(p_)) for p_ in kw_params if cur(p_) != state.env.get(p_, var(p_)) or True))
                    if func.cls is not None and not func.is_staticmethod:
                        recv = stt.env.get(self_name, var(self_name))
                        outs.append((stt, "return", ("recurse", func.qname, args, kwargs) if func.is_classmethod else ("meth", recv, func.name, args, kwargs), ln))
                    else:
                        outs.append((stt, "return", ("recurse", func.qname, args, kwargs), ln))
                else:
                    outs.append((stt, status, val, ln))
        return outs

    def _peel_loop(self, st: ast.While, state: State, func: Func):
        """`while isinstance(x, C): x = x.attr`  ->  x = peel(x0, C, attr), and afterwards not isinstance(x, C)."""
        t = st.test
        if not (isinstance(t, ast.Call) and isinstance(t.func, ast.Name) and t.func.id == "isinstance" and len(t.args) == 2 and isinstance(t.args[0], ast.Name)):
            return None
        name = t.args[0].id
        if st.orelse or name not in state.env:
            return None
        steps = [x for x in st.body if isinstance(x, ast.Assign) and len(x.targets) == 1 and isinstance(x.targets[0], ast.Name) and x.targets[0].id == name
                 and isinstance(x.value, ast.Attribute) and isinstance(x.value.value, ast.Name) and x.value.value.id == name]
        if len(steps) != 1:
            return None
        b = steps[0]
        others = [x for x in st.body if x is not b]
        spec = self.eval1(t.args[1], state, func)
        names = self._class_names(spec)
        if names is None:
            return None
        s2 = state.fork()
        if others:
            # whatever else the loop body accumulates on the way down is not tracked (explicit unknowns), the peeled variable is
            self._havoc_assigned(others, s2, "while-peel", st.lineno)
        peeled = ("peel", s2.env[name], tuple(sorted(names)), b.value.attr)
        s2.env[name] = peeled
        # (that the peeled value is no longer an instance of these classes is part of what `peel` means: isinstance_term folds such tests)
        return [(s2, "fall", None, st.lineno)]

    _localdefs: dict[int, tuple[ast.FunctionDef, Func]] = {}

    def _exec_yield(self, y: ast.expr, state: State, func: Func):
        # generators are summarised as the list of yielded things accumulated in env['%yield']
        line = getattr(y, "lineno", 0)
        outs = []
        if isinstance(y, ast.YieldFrom):
            for s, v in self.eval(y.value, state, func):
                s2 = s.fork()
                s2.env["%yield"] = self._concat(s2.env.get("%yield", ("listlit", ())), v)
                outs.append((s2, "fall", None, line))
        else:
            vals = self.eval(y.value, state, func) if y.value is not None else [(state, NONE)]
            for s, v in vals:
                s2 = s.fork()
                s2.env["%yield"] = self._concat(s2.env.get("%yield", ("listlit", ())), ("listlit", (v,)))
                outs.append((s2, "fall", None, line))
        return outs

    def _concat(self, a: Term, b: Term) -> Term:
        if a == ("listlit", ()):
            return b
        if b == ("listlit", ()):
            return a
        if a[0] == "listlit" and b[0] == "listlit":
            return ("listlit", a[1] + b[1])
        return ("concat", a, b)

    def _havoc_assigned(self, body: list[ast.stmt], state: State, why: str, line: int) -> None:
        for n in ast.walk(ast.Module(body=body, type_ignores=[])):
            if isinstance(n, ast.Name) and isinstance(n.ctx, ast.Store):
                state.env[n.id] = unknown(f"{why}:{n.id}", line)
            elif isinstance(n, ast.Call) and isinstance(n.func, ast.Attribute) and n.func.attr in MUTATORS:
                base = n.func.value
                while isinstance(base, (ast.Attribute, ast.Subscript)):
                    base = base.value
                if isinstance(base, ast.Name) and base.id in state.env:
                    state.env[base.id] = unknown(f"{why}:{base.id}", line)

    # -------------------------------------------------------------- assignment
    def assign(self, tgt: ast.expr, v: Term, state: State, func: Func) -> None:
        line = getattr(tgt, "lineno", 0)
        if isinstance(tgt, ast.Name):
            state.env[tgt.id] = v
        elif isinstance(tgt, (ast.Tuple, ast.List)):
            if v[0] in ("tuplelit", "listlit") and len(v[1]) == len(tgt.elts) and not any(isinstance(e, ast.Starred) for e in tgt.elts):
                for e, x in zip(tgt.elts, v[1]):
                    self.assign(e, x, state, func)
            else:
                for i, e in enumerate(tgt.elts):
                    if isinstance(e, ast.Starred):
                        self.assign(e.value, ("unpack_rest", v, const(i)), state, func)
                    else:
                        self.assign(e, self._positional(v, i), state, func)
        elif isinstance(tgt, ast.Attribute):
            base = tgt.value
            if isinstance(base, ast.Name) and base.id in state.env:
                cur = state.env[base.id]
                if cur[0] == "rec":
                    fields = dict(cur[2])
                    fields[tgt.attr] = v
                    state.env[base.id] = ("rec", cur[1], tuple(fields.items()))
                    return
                state.env[base.id] = ("mut", cur, (("setattr", tgt.attr, v),))
            else:
                state.notes = state.notes + (("external-store", unparse(tgt), line),)
        elif isinstance(tgt, ast.Subscript):
            base = tgt.value
            if isinstance(base, ast.Name) and base.id in state.env:
                cur = state.env[base.id]
                idxs = self.eval(tgt.slice, state, func)
                k = idxs[0][1] if len(idxs) == 1 else unknown("subscript-index", line)
                state.env[base.id] = self._add_effect(cur, ("setitem", k, v))
            elif isinstance(base, ast.Attribute) and isinstance(base.value, ast.Name) and base.value.id in state.env:
                # x.attr[k] = v  on a local value: recorded as an effect on x
                cur = state.env[base.value.id]
                idxs = self.eval(tgt.slice, state, func)
                k = idxs[0][1] if len(idxs) == 1 else unknown("subscript-index", line)
                state.env[base.value.id] = self._add_effect(cur, ("setitem-attr", base.attr, k, v))
            else:
                state.notes = state.notes + (("external-store", unparse(tgt), line),)
        else:
            self.unknowns.append((func.qname, line, "assign:" + type(tgt).__name__))

    def _add_effect(self, cur: Term, eff: tuple) -> Term:
        if cur[0] == "listlit" and eff[0] == "delitem" and len(eff) == 2 and eff[1][0] == "const" and isinstance(eff[1][1], int) \
                and not isinstance(eff[1][1], bool) and all(x[0] != "star" for x in cur[1]) and -len(cur[1]) <= eff[1][1] < len(cur[1]):
            i = eff[1][1] % len(cur[1])
            return ("listlit", cur[1][:i] + cur[1][i + 1:])  # del [a, b, c][1]  leaves  [a, c]
        if cur[0] == "mut":
            return ("mut", cur[1], cur[2] + (eff,))
        return ("mut", cur, (eff,))

    # -------------------------------------------------------------- for loops
    def exec_for(self, st: ast.For, state: State, func: Func):
        outs = []
        roots = self._alias_mutated_roots(st)
        if roots:
            st2 = _loop_over_keys(st)
            if st2 is not None:
                # `for v in d.values(): v.discard(x)`  is  `for k in d: d[k].discard(x)`: the modification is then an effect on d itself
                return self.exec_for(st2, state, func)
        carried = [n_ for n_ in state.env if _escapes_in_body(st.body, n_)]
        if carried:
            # a collection the body changes in place AND hands to another routine: what that routine sees in iteration k is the result of
            # iterations 1..k-1 (loop-carried state).  The evaluator reads a body once, for a generic element, from the state at loop entry;
            # that reading is wrong here, so the collection is not known inside (and after) the loop
            state = state.fork()
            for n_ in carried:
                state.env[n_] = unknown(f"loop-carried-argument:{n_}", st.lineno)
                self.unknowns.append((func.qname, st.lineno, f"loop-carried-argument:{n_}"))
        for s0, it in self.eval(st.iter, state, func):
            outs.extend(self._exec_for_over(st, s0, it, func))
        if roots:
            # the body modifies the loop variable's OBJECT, which lives inside the collection being iterated: the evaluator has no heap to
            # follow that through, so the collection's owner is no longer known
            for o in outs:
                for r in roots:
                    if r in o[0].env:
                        o[0].env[r] = unknown(f"modified-through-loop-variable:{r}", st.lineno)
                        self.unknowns.append((func.qname, st.lineno, f"alias-mutation:{r}"))
        return outs

    def _alias_mutated_roots(self, st: ast.For) -> set:
        targets = _target_names(st.target)
        hit = False
        for n in ast.walk(ast.Module(body=st.body, type_ignores=[])):
            if isinstance(n, ast.Call) and isinstance(n.func, ast.Attribute) and n.func.attr in MUTATORS and isinstance(n.func.value, ast.Name) \
                    and n.func.value.id in targets:
                hit = True
            elif isinstance(n, ast.Subscript) and isinstance(n.ctx, (ast.Store, ast.Del)) and isinstance(n.value, ast.Name) and n.value.id in targets:
                hit = True
            elif isinstance(n, ast.AugAssign) and isinstance(n.target, ast.Name) and n.target.id in targets and isinstance(n.op, (ast.BitOr, ast.BitAnd, ast.Sub, ast.Add)):
                hit = True
        if not hit:
            return set()
        roots = set()
        cur = st.iter
        for n in ast.walk(cur):
            if isinstance(n, ast.Name):
                roots.add(n.id)
        return roots

    def _exec_for_over(self, st: ast.For, s0: State, it: Term, func: Func):
        line = st.lineno
        outs = []
        if True:
            if it[0] == "bottom":
                outs.append((s0, "raise", it[1], line))
                return outs
            if it[0] == "concat" and len(it) == 3 and not st.orelse and not any(isinstance(n, ast.Break) for n in ast.walk(st)):
                # a loop over A + B visits A, then B
                for o in self._exec_for_over(st, s0, it[1], func):
                    if o[1] == "fall":
                        outs.extend(self._exec_for_over(st, o[0], it[2], func))
                    else:
                        outs.append(o)
                return outs
            # statically known literal of length <= 4 : unroll
            lit_items = it[1] if it[0] in ("listlit", "tuplelit") else self._literal_items(it) if it[0] == "call" and it[1] in ("enumerate", "range") else None
            if lit_items is not None and len(lit_items) <= 6 and not any(x[0] == "star" for x in lit_items):
                live = [s0]
                for x in lit_items:
                    nxt = []
                    for s in live:
                        s1 = s.fork()
                        self.assign(st.target, x, s1, func)
                        for o in self.exec_block(st.body, s1, func):
                            if o[1] in ("fall", "continue"):
                                nxt.append(o[0])
                            elif o[1] == "break":
                                outs.append((o[0], "fall", None, line))
                            else:
                                outs.append(o)
                    live = nxt
                for s in live:
                    if st.orelse:
                        outs.extend(self.exec_block(st.orelse, s, func))
                    else:
                        outs.append((s, "fall", None, line))
                return outs
            fused = self._fuse_generator(it)
            if fused is not None:
                outs.extend(self._exec_for_fused(st, s0, fused, func))
                return outs
            outs.extend(self._exec_for_generic(st, s0, it, func))
        return outs

    def _fuse_generator(self, it: Term):
        """iter([elem for pat in src if conds])  (a single-yield generator)  ->  (elem, gens)"""
        t = it
        while t[0] == "call" and t[1] in ("iter", "list", "tuple") and len(t[2]) == 1:
            t = t[2][0]
        if t[0] == "accum" and t[1] == "concat" and t[2] == ("listlit", ()) and t[3][0] == "listlit" and len(t[3][1]) == 1 and t[5] == ("const", False):
            return t[3][1][0], t[4]
        if t[0] == "comp" and t[1] in ("list", "gen") and len(t[3]) >= 1 and not (isinstance(t[2], tuple) and t[2] and t[2][0] == "%payload"):
            return t[2], t[3]
        if t[0] == "call" and isinstance(t[1], str) and t[1].split(".")[-1] == "product" and len(t[2]) == 1 and dict(t[3]).get("repeat") == const(2) and len(t[3]) == 1:
            t = ("call", t[1], (t[2][0], t[2][0]), ())
        if t[0] == "call" and isinstance(t[1], str) and t[1].split(".")[-1] == "product" and not t[3] and len(t[2]) >= 2:
            # for a, b in product(A, B)  =  for a in A: for b in B
            vs = tuple(("var", f"%prod{i}_") for i in range(len(t[2])))
            for v, src in zip(vs, t[2]):
                et = self.elem_type(src) if hasattr(self, "elem_type") else None
                if et is not None:
                    self.set_type(v, et)
            return ("tuplelit", vs), tuple((v, src, ()) for v, src in zip(vs, t[2]))
        return None

    def _exec_for_fused(self, st: ast.For, s0: State, fused, func: Func):
        """Loop over a single-yield generator: iterate the generator's own source, binding the target to the yielded element."""
        elem, gens = fused
        line = st.lineno
        # rename the generator's bound variables apart
        mapping = {}
        for pat, _, _ in gens:
            for v in ([pat] if pat[0] == "var" else [x for x in pat[1] if x[0] == "var"]):
                mapping[v] = self.fresh(v[1].strip("%").rstrip("0123456789_") + "_")
                if v in self.types:
                    self.set_type(mapping[v], self.types[v])
        elem = subst(elem, mapping)
        gens = subst(gens, mapping)
        body_state = s0.fork()
        base_conds = body_state.conds
        self.assign(st.target, elem, body_state, func)
        extra_conds = []
        for pat, src, conds in gens:
            extra_conds.append(("iter-elem", pat, src))
            extra_conds.extend(conds)
        before = dict(body_state.env)
        body_outs = self.exec_block(st.body, body_state, func)
        exits = [o for o in body_outs if o[1] in ("return", "raise")]
        breaks = [o for o in body_outs if o[1] == "break"]
        normals = [o for o in body_outs if o[1] in ("fall", "continue")]
        outs = []
        for stt, status, val, ln in exits:
            extra = stt.conds[len(base_conds):]
            s = State(self._exit_env(s0, before, stt, normals + breaks, st.target), add_conds(s0.conds, tuple(extra_conds) + tuple(extra)), stt.notes)
            outs.append((s, status, val, ln))
        after = s0.fork()
        changed: dict[str, list] = {}
        for stt, status, val, ln in normals + breaks:
            extra = stt.conds[len(base_conds):]
            for name, newv in stt.env.items():
                if name.startswith("%") and name != "%yield":
                    continue
                oldv = before.get(name)
                if newv is oldv or newv == oldv or name in _target_names(st.target):
                    continue
                changed.setdefault(name, []).append((extra, newv))
            after.notes = after.notes + tuple(("in-loop", n, tuple(gens), tuple(extra)) for n in stt.notes[len(s0.notes):])
        for name, alts in changed.items():
            oldv = before.get(name)
            res = oldv
            ok = oldv is not None
            if ok:
                for extra, newv in alts:
                    dec = self._decompose(oldv, newv)
                    if dec is None:
                        ok = False
                        break
                    for kind, payload, inner in dec:
                        g = list(gens)
                        # attach the body's own conditions to the innermost generator
                        lp, lsrc, lconds = g[-1]
                        g[-1] = (lp, lsrc, tuple(lconds) + tuple(extra))
                        res = _mk_accum(kind, res, payload, tuple(g) + tuple(inner), bool(breaks))
            if (not ok or has_unknown(res)) and self.loop_once and oldv is not None:
                # relational abstraction, as in the generic loop: the state after ONE generic iteration, tagged with what the loop ranges over
                val = oldv
                for extra, newv in reversed(alts):
                    c = self.mk_bool("and", list(extra)) if extra else TRUE
                    val = newv if c == TRUE else ("ite", c, newv, val)
                if len(gens) == 1 and not gens[0][2]:
                    after.env[name] = ("after-iteration", val, gens[0][0], gens[0][1])
                else:
                    after.env[name] = ("after-iteration", val, ("tuplelit", tuple(p for p, _, _ in gens)), ("comp", "list", TRUE, tuple(gens)))
                continue
            if not ok:
                after.env[name] = unknown(f"loop-carried:{name}", line)
                self.unknowns.append((func.qname, line, f"loop-carried:{name}"))
            else:
                after.env[name] = res
        for nm in _target_names(st.target):
            after.env[nm] = unknown(f"loop-var-after:{nm}", line)
        if exits:
            for stt, status, val, ln in exits:
                extra = stt.conds[len(base_conds):]
                after.conds = after.conds + (("forall-not", gens[0][0] if len(gens) == 1 else ("tuplelit", tuple(p for p, _, _ in gens)), gens[0][1], tuple(extra_conds[1:]) + tuple(extra)),)
        if st.orelse:
            outs.extend(self.exec_block(st.orelse, after, func))
        else:
            outs.append((after, "fall", None, line))
        return outs


    def _exit_env(self, s0: State, before: dict, stt: State, normals: list, target) -> dict:
        """Environment on a path that LEAVES the loop in some iteration: what that iteration itself assigned survives when no iteration that stays
        in the loop touches the same variable (then the value at the start of the leaving iteration is the value before the loop)."""
        env = dict(s0.env)
        touched = set()
        for st2, _status, _v, _ln in normals:
            for name, newv in st2.env.items():
                oldv = before.get(name)
                if newv is not oldv and newv != oldv:
                    touched.add(name)
        tnames = _target_names(target)
        for name, newv in stt.env.items():
            if name in tnames or (name.startswith("%") and name != "%yield"):
                continue
            oldv = before.get(name)
            if newv is oldv or newv == oldv or oldv is None:
                continue
            if name not in touched:
                env[name] = newv
        return env

    def _yields_pairs(self, it: Term | None, depth: int = 0) -> bool:
        """The iterable's elements are 2-tuples by construction (edges of a networkx graph, combinations(_, 2), zip of two, items, enumerate)."""
        if it is None or depth > 6:
            return False
        h = it[0]
        if h == "meth" and it[2] in ("edges", "items", "in_edges", "out_edges") and not it[3] and not it[4]:
            return True
        if h == "attr" and it[2] == "edges":
            return True
        if h == "call" and isinstance(it[1], str):
            tail = it[1].split(".")[-1]
            if tail == "combinations" and len(it[2]) == 2 and it[2][1] == const(2):
                return True
            if tail in ("zip", "product") and len(it[2]) == 2 and not [k for k, _ in it[3] if k != "strict"]:
                return True
            if tail == "enumerate" and len(it[2]) == 1:
                return True
            if tail in ("list", "tuple", "iter", "set", "frozenset", "sorted", "reversed") and len(it[2]) == 1:
                return self._yields_pairs(it[2][0], depth + 1)
        if h in ("setof", "copyof"):
            return self._yields_pairs(it[1], depth + 1)
        if h == "comp" and it[1] in ("list", "gen", "set") and is_term(it[2]) and it[2][0] == "tuplelit" and len(it[2][1]) == 2 and not any(x[0] == "star" for x in it[2][1]):
            return True  # a comprehension of explicit pairs
        if h == "accum" and it[1] in ("concat", "union") and len(it) > 4 and it[3][0] in ("listlit", "setlit") and len(it[3][1]) == 1 \
                and it[3][1][0][0] == "tuplelit" and len(it[3][1][0][1]) == 2 and (it[2] in (("listlit", ()), EMPTY) or self._yields_pairs(it[2], depth + 1)):
            return True  # a list / generator that receives one explicit pair per iteration
        if h == "comp" and it[1] in ("list", "gen", "set") and it[3] and it[2] == it[3][-1][0] and it[2][0] == "var":
            return self._yields_pairs(it[3][-1][1], depth + 1)  # the elements of the last generator's source, passed on unchanged
        if h == "bigunion" and is_term(it[1]) and it[1][0] == "comp":
            return self._yields_pairs(it[1][2], depth + 1)
        if h == "call" and isinstance(it[1], str) and it[1].endswith("from_iterable") and len(it[2]) == 1 and it[2][0][0] == "comp":
            return self._yields_pairs(it[2][0][2], depth + 1)
        if h == "concat" and len(it) == 3:
            return self._yields_pairs(it[1], depth + 1) and self._yields_pairs(it[2], depth + 1)
        et = self.elem_type(it)
        return isinstance(et, tuple) and len(et) == 2 and et[0] == "tuple" and isinstance(et[1], (tuple, list)) and len(et[1]) == 2 and et[1][0] != "..." and et[1][1] != "..."

    def _bind_target(self, tgt: ast.expr, state: State, it: Term | None = None) -> Term:
        """Bind loop/comprehension target to fresh bound variables; returns the target pattern term."""
        if isinstance(tgt, ast.Name):
            if self._yields_pairs(it):
                # `for edge in G.edges()`: the element is a pair, named by its components (edge[0], edge[1], *edge, `in edge` then read off)
                a, b = self.fresh(tgt.id + "0_"), self.fresh(tgt.id + "1_")
                state.env[tgt.id] = ("tuplelit", (a, b))
                self._type_bound(("tuplelit", (a, b)), it)
                return ("tuplelit", (a, b))
            v = self.fresh(tgt.id + "_")
            state.env[tgt.id] = v
            return v
        if isinstance(tgt, (ast.Tuple, ast.List)):
            subs: list = [None] * len(tgt.elts)
            src = it
            while src is not None and src[0] == "call" and src[1] in ("list", "tuple", "iter") and len(src[2]) == 1 and not src[3]:
                src = src[2][0]
            if src is not None and src[0] == "call" and isinstance(src[1], str) and len(tgt.elts) == 2:
                tail = src[1].split(".")[-1]
                if tail == "enumerate" and len(src[2]) == 1:
                    subs[1] = src[2][0]  # the second component of enumerate(X) is an element of X
                elif tail == "zip" and len(src[2]) == 2:
                    subs = [src[2][0], src[2][1]]
            return ("tuplelit", tuple(self._bind_target(e, state, subs[k]) for k, e in enumerate(tgt.elts)))
        if isinstance(tgt, ast.Starred):
            return self._bind_target(tgt.value, state)
        v = self.fresh("t_")
        return v

    def _caller_supplied(self, v: Term, depth: int = 0) -> bool:
        """the value is an argument of the routine as the caller handed it over, at most copied into another container (`set(x)`, `x or ()`,
        `set() if x is None else set(x)`): what its elements are is the caller's business, an annotation does not make it so"""
        if depth > 6 or not is_term(v):
            return False
        if v[0] == "var":
            return not str(v[1]).startswith("%")
        if v[0] in ("empty",) or (v[0] in ("setlit", "listlit", "tuplelit") and not v[1]) or (v[0] == "const" and v[1] is None):
            return True
        if v[0] == "call" and v[1] in ("set", "frozenset", "list", "tuple", "sorted", "iter") and len(v[2]) == 1 and not v[3]:
            return self._caller_supplied(v[2][0], depth + 1)
        if v[0] == "call" and v[1] in ("set", "frozenset", "list", "tuple") and not v[2] and not v[3]:
            return True
        if v[0] == "setof" and len(v) == 2:
            return self._caller_supplied(v[1], depth + 1)
        if v[0] == "ite" and len(v) == 4:
            a, b = v[2], v[3]
            return self._caller_supplied(a, depth + 1) and self._caller_supplied(b, depth + 1) and any(x[0] in ("var", "call", "setof") for x in (a, b))
        return False

    def _type_bound(self, pat: Term, it: Term) -> None:
        src = it
        while (src[0] == "call" and src[1] in ("set", "frozenset", "list", "tuple", "sorted", "iter", "reversed") and len(src[2]) == 1) or (src[0] == "setof" and len(src) == 2):
            if src in self.declared:
                break
            src = src[2][0] if src[0] == "call" else src[1]
        if src in self.declared:
            for x in ([pat] if pat[0] == "var" else [y for y in pat[1] if is_term(y) and y[0] == "var"] if pat[0] == "tuplelit" else []):
                self.declared.add(x)
        et = self.elem_type(it)
        if isinstance(et, tuple) and et[0] == "pair" and pat[0] == "tuplelit" and len(pat[1]) == 2:
            for x in pat[1]:
                if x[0] == "var":
                    self.set_type(x, et[1])
            return
        if pat[0] == "var" and isinstance(et, tuple) and et[0] == "cls" and self.typeof(it) is None:
            self.set_type(pat, et)
            return
        typ = self.typeof(it)
        if isinstance(typ, tuple) and typ[0] in ("set", "frozenset", "list", "tuple", "iter") and len(typ) > 1:
            if pat[0] == "var" and typ[1] is not None:
                self.set_type(pat, typ[1])

    def _exec_for_generic(self, st: ast.For, s0: State, it: Term, func: Func):
        line = st.lineno
        body_state = s0.fork()
        base_conds = body_state.conds
        pat = self._bind_target(st.target, body_state, it)
        self._type_bound(pat, it)
        before = dict(body_state.env)
        try:
            body_outs = self.exec_block(st.body, body_state, func)
        except Budget:
            raise
        exits = [o for o in body_outs if o[1] in ("return", "raise")]
        breaks = [o for o in body_outs if o[1] == "break"]
        normals = [o for o in body_outs if o[1] in ("fall", "continue")]
        leaves = []
        if st.orelse and breaks:
            # for ... else: whether the loop was left by `break` decides if the else-suite runs, so a break is a way OUT of the loop here
            # (like return), continuing after the whole statement without the else-suite
            leaves, breaks = breaks, []
        outs = []
        member = ("iter-elem", pat, it)
        # search-loop exits: "for some element of the iterable the body reaches return/raise"
        for stt, status, val, ln in exits + leaves:
            extra = stt.conds[len(base_conds):]
            s = State(self._exit_env(s0, before, stt, normals + breaks, st.target), s0.conds + (member,) + extra, stt.notes)
            outs.append((s, "fall" if status == "break" else status, val, ln))
        exits = exits + leaves
        # fall-through state: accumulate effects of normal iterations
        after = s0.fork()
        changed: dict[str, list[tuple[tuple, Term]]] = {}
        from_break: dict[str, list[bool]] = {}
        ok = True
        for stt, status, val, ln in normals + breaks:
            extra = stt.conds[len(base_conds):]
            for name, newv in stt.env.items():
                if name.startswith("%") and name != "%yield":
                    continue
                oldv = before.get(name)
                if newv is oldv or newv == oldv:
                    continue
                if self._is_loop_target(name, st.target):
                    continue
                changed.setdefault(name, []).append((extra, newv))
                from_break.setdefault(name, []).append(status == "break")
        for name, alts in changed.items():
            oldv = before.get(name)
            first_hit = None
            if breaks and not exits and len(alts) == 1 and all(from_break[name]) and len(breaks) == 1:
                # the loop stops in the very iteration that adds its (single) element: the element of the first iteration that gets there
                dec = self._decompose(oldv, alts[0][1]) if oldv is not None else None
                if dec is not None and len(dec) == 1 and dec[0][0] == "concat" and not dec[0][2] and dec[0][1][0] == "listlit" and len(dec[0][1][1]) == 1:
                    first_hit = ("accum", "concat", oldv, dec[0][1], ((pat, ("firsthit", it), tuple(alts[0][0])),), const(False))
            if first_hit is None and breaks and not exits and len(alts) == 1 and all(from_break[name]) and len(breaks) == 1 and oldv is not None \
                    and not any(x == oldv for x in subterms(alts[0][1])) and oldv[0] in ("const", "var", "attr"):
                # `found = default; for x in S: if c(x): found = f(x); break`: the first hit, or the default -- next((f(x) for x in S if c(x)), default)
                first_hit = ("call", "next", (("comp", "gen", alts[0][1], ((pat, it, tuple(alts[0][0])),)), oldv), ())
            acc = first_hit if first_hit is not None else self._summarise_accumulation(
                name, oldv, alts, pat, it, line, bool(breaks), n_paths=len(normals) + len(breaks))
            if acc is not None and first_hit is None and _tests_read_name(st.body, name):
                # the body TESTS the accumulator it is filling (`if x not in seen: seen.update(f(x))`): the value tested in iteration k is the
                # result of iterations 1..k-1, not the initial value -- a closed comprehension over the initial value would be wrong
                acc = unknown(f"loop-carried-test:{name}", line)
            if acc is None and not breaks and not exits and len(alts) == 1 and oldv is not None and (
                    not any(x == oldv for x in subterms(alts[0][1])) or not _body_reads_name(st.body, name)):
                # `v = default; for x in S: if c(x): v = f(x)` (no break, f does not use v): the LAST hit, or the default --
                # next((f(x) for x in reversed(S) if c(x)), default)
                acc = ("call", "next", (("comp", "gen", alts[0][1], ((pat, ("call", "reversed", (it,), ()), tuple(alts[0][0])),)), oldv), ())
            if (acc is None or has_unknown(acc)) and self.loop_once and oldv is not None:
                # relational abstraction (used only when BOTH sides of a comparison are evaluated this way): the state after ONE generic
                # iteration -- a case distinction over the body's paths -- tagged with the collection the loop ranges over
                val = oldv
                for extra, newv in reversed(alts):
                    c = self.mk_bool("and", list(extra)) if extra else TRUE
                    val = newv if c == TRUE else ("ite", c, newv, val)
                after.env[name] = ("after-iteration", val, pat, it)
                continue
            if acc is None:
                ok = False
                after.env[name] = unknown(f"loop-carried:{name}", line)
                self.unknowns.append((func.qname, line, f"loop-carried:{name}"))
            else:
                after.env[name] = acc
        # loop variables remain bound to "some element" after the loop
        tnames = _target_names(st.target)
        for nm in tnames:
            if len(tnames) == 1 and isinstance(st.target, ast.Name) and not breaks and not leaves:
                # after a loop that ran to its end the variable is still bound to the LAST element (unbound if there was none)
                after.env[nm] = ("index", ("call", "list", (it,), ()), const(-1))
            else:
                after.env[nm] = unknown(f"loop-var-after:{nm}", line)
        if exits:
            # falling through means no iteration took an exit path
            for stt, status, val, ln in exits:
                extra = stt.conds[len(base_conds):]
                after.conds = after.conds + (("forall-not", pat, it, extra),)
        if breaks and not exits:
            after.notes = after.notes + (("loop-with-break", line),)
        for stt, status, val, ln in normals + breaks:
            extra = stt.conds[len(base_conds):]
            after.notes = after.notes + tuple(("in-loop", n, ((pat, it, ()),), tuple(extra)) for n in stt.notes[len(s0.notes):])
        if st.orelse:
            outs.extend(self.exec_block(st.orelse, after, func))
        else:
            outs.append((after, "fall", None, line))
        return outs

    def _is_loop_target(self, name: str, tgt: ast.expr) -> bool:
        return name in _target_names(tgt)

    def _summarise_accumulation(self, name, oldv, alts, pat, it, line, has_break, n_paths=None):
        """Turn per-iteration updates of one accumulator into a closed comprehension term."""
        if oldv is None:
            # variable first assigned inside the loop (a per-iteration temporary that escapes)
            return unknown(f"loop-temp-escapes:{name}", line)
        if n_paths is not None and len(alts) == n_paths >= 2 and not has_break:
            # every path of the body appends exactly one element: one element per iteration, chosen by the path's own conditions
            singles = []
            for extra, newv in alts:
                dec = self._decompose(oldv, newv)
                if dec is None or len(dec) != 1 or dec[0][0] != "concat" or dec[0][2] or dec[0][1][0] != "listlit" or len(dec[0][1][1]) != 1 or not extra:
                    singles = None
                    break
                singles.append((extra, dec[0][1][1][0]))
            if singles:
                val = singles[-1][1]
                for extra, elt in reversed(singles[:-1]):
                    val = ("ite", self.mk_bool("and", list(extra)), elt, val)
                return ("accum", "concat", oldv, ("listlit", (val,)), ((pat, it, ()),), const(False))
        pieces = []
        for extra, newv in alts:
            dec = self._decompose(oldv, newv)
            if dec is None:
                return None
            for kind, payload, inner in dec:
                pieces.append((kind, payload, extra, inner))
        if len(pieces) > 1 and not has_break:
            pieces = _merge_complementary(pieces)
        res = oldv
        for kind, payload, extra, inner in pieces:
            res = _mk_accum(kind, res, payload, ((pat, it, tuple(extra)),) + tuple(inner), bool(has_break))
        return res

    def _decompose(self, oldv: Term, newv: Term, depth: int = 0):
        """newv as oldv plus a list of (kind, payload, inner_gens) updates; None if not of that shape."""
        if newv == oldv:
            return []
        if depth > 40:
            return None
        d0 = self._delta(oldv, newv)
        if d0 is not None:
            return [(d0[0], p, ()) for p in d0[1]]
        if newv[0] == "accum" and newv[5] == ("const", True):
            return None  # an inner loop with break: its order matters, keep it opaque
        if newv[0] == "accum":
            rest = self._decompose(oldv, newv[2], depth + 1)
            if rest is not None:
                return rest + [(newv[1], newv[3], tuple(newv[4]))]
        if newv[0] == "mut":
            rest = self._decompose(oldv, newv[1], depth + 1)
            if rest is not None:
                return rest + [("effect", e, ()) for e in newv[2]]
            if oldv[0] == "mut" and oldv[1] == newv[1] and newv[2][: len(oldv[2])] == oldv[2]:
                return [("effect", e, ()) for e in newv[2][len(oldv[2]):]]
        if newv[0] == "diff" and len(newv) == 3:
            # acc = (acc ∪ ...) ∖ S inside a loop: the removal is one more per-iteration effect (order matters, so it stays an effect)
            rest = self._decompose(oldv, newv[1], depth + 1)
            if rest is not None:
                return rest + [("effect", ("call", "difference_update", (newv[2],), ()), ())]
        d = self._delta(oldv, newv)
        if d is None:
            # one level of set/list update on top of a decomposable value
            if newv[0] in ("union", "concat") and len(newv) >= 3:
                rest = self._decompose(oldv, newv[1], depth + 1)
                if rest is not None:
                    return rest + [(newv[0], x, ()) for x in newv[2:]]
            return None
        kind, payloads = d
        return [(kind, p, ()) for p in payloads]

    def _delta(self, oldv: Term, newv: Term):
        """newv as oldv + list of effects; returns (kind, [payloads]) or None."""
        # effects recorded by statement-level mutator calls
        if newv[0] == "mut":
            base, effs = newv[1], newv[2]
            if base == oldv:
                return ("effect", list(effs))
            if oldv[0] == "mut" and oldv[1] == base and effs[: len(oldv[2])] == oldv[2]:
                return ("effect", list(effs[len(oldv[2]):]))
            return None
        if oldv in (EMPTY, ("setlit", ())) and newv[0] in ("setof", "union", "comp", "setlit", "meth", "call", "accum"):
            return ("union", [newv])
        if oldv == ("listlit", ()) and newv[0] in ("listlit", "concat", "recurse", "call", "meth", "comp", "accum", "ite"):
            return ("concat", [newv])
        if newv[0] == "union" and oldv in newv[1:]:
            rest = [x for x in newv[1:] if x != oldv]
            return ("union", rest)
        if newv[0] == "op" and newv[2] == oldv:
            return ("op" + newv[1], [newv[3]])
        if newv[0] == "concat" and newv[1] == oldv:
            return ("concat", [newv[2]])
        if newv[0] == "listlit" and oldv[0] == "listlit" and newv[1][: len(oldv[1])] == oldv[1]:
            return ("concat", [("listlit", newv[1][len(oldv[1]):])])
        if newv[0] in ("inter", "diff") and newv[1] == oldv:
            return (newv[0], list(newv[2:]))
        return None

    # -------------------------------------------------------------- try
    def exec_try(self, st: ast.Try, state: State, func: Func):
        outs = []
        body_outs = self.exec_block(st.body, state, func)
        handled_any = False
        for o in body_outs:
            stt, status, val, ln = o
            if status == "raise":
                h = self._match_handler(st.handlers, val, func)
                if h is not None:
                    handled_any = True
                    s2 = stt.fork()
                    if h.name:
                        s2.env[h.name] = val
                    outs.extend(self.exec_block(h.body, s2, func))
                    continue
                outs.append(o)
            elif status == "fall":
                if st.orelse:
                    outs.extend(self.exec_block(st.orelse, stt, func))
                else:
                    outs.append(o)
            else:
                outs.append(o)
        # handlers may also be entered by exceptions raised inside uninterpreted calls: the event "one of THESE calls raised one of the
        # handler's exceptions" is identified by the calls themselves (as evaluated terms), so that two spellings of the same try agree
        calls = self._uninterpreted_calls(body_outs, state, [n for h in st.handlers for n in self._handler_names(h, func)])
        if calls:
            for h in st.handlers:
                ev_ = ("raised-in", self._handler_names(h, func), calls)
                s2 = state.fork()
                s2.conds = s2.conds + (ev_,)
                self._havoc_assigned(st.body, s2, "try-body", st.lineno)
                if h.name:
                    s2.env[h.name] = ("caught", self._handler_names(h, func))
                outs.extend(self.exec_block(h.body, s2, func))
            # ... and every outcome reached WITHOUT such an exception says so
            negs = tuple(("not", ("raised-in", self._handler_names(h, func), calls)) for h in st.handlers)
            n_spec = sum(1 for _ in st.handlers)
            marked = []
            for o in outs:
                stt = o[0]
                if any(c[0] == "raised-in" and c[2] == calls for c in stt.conds):
                    marked.append(o)
                    continue
                s3 = stt.fork()
                s3.conds = s3.conds + negs
                marked.append((s3,) + tuple(o[1:]))
            outs = marked
        if st.finalbody:
            new = []
            for stt, status, val, ln in outs:
                for o2 in self.exec_block(st.finalbody, stt, func):
                    if o2[1] == "fall":
                        new.append((o2[0], status, val, ln))
                    else:
                        new.append(o2)
            outs = new
        return outs

    PURE_CALLS = {"isinstance", "len", "set", "list", "dict", "tuple", "sorted", "frozenset", "str", "repr", "iter", "bool", "id", "type",
                  "copyof", "reversed", "enumerate", "zip", "range", "min", "max", "sum", "any", "all", "hash", "print"}

    def _uninterpreted_calls(self, body_outs, state: State, handler_names: list) -> tuple:
        """The calls evaluated inside a try body that the evaluator did not look into (primitives, externals), as a canonical tuple of terms."""
        lookup = any(n.split(".")[-1] in ("KeyError", "IndexError", "LookupError", "Exception", "BaseException") for n in handler_names)
        found: set = set()
        n0 = len(state.conds)

        def scan(t):
            for s_ in _subterms(t):
                if s_[0] == "call" and isinstance(s_[1], str):
                    nm = s_[1].split(".")[-1]
                    if nm in self.PURE_CALLS or s_[1].startswith("logger.") or s_[1].startswith("logging."):
                        continue
                    found.add(s_)
                elif s_[0] == "meth" and isinstance(s_[2], str) and s_[2] not in ("get_base", "items", "keys", "values", "copy", "debug", "info", "warning"):
                    found.add(s_)
                elif lookup and s_[0] == "index":
                    found.add(s_)

        for stt, status, val, _ln in body_outs:
            for c in stt.conds[n0:]:
                scan(c)
            for k, v in stt.env.items():
                if state.env.get(k) is not v and state.env.get(k) != v:
                    scan(v)
            if val is not None and isinstance(val, tuple):
                scan(val)
        # outermost calls only: a call nested in another call's argument is evaluated before it, but naming the outer ones keeps the event small
        return tuple(sorted(found, key=repr))

    def _handler_names(self, h: ast.ExceptHandler, func: Func) -> tuple:
        if h.type is None:
            return ("BaseException",)
        ts = h.type.elts if isinstance(h.type, ast.Tuple) else [h.type]
        return tuple(unparse(t) for t in ts)

    def _match_handler(self, handlers, exc: Term, func: Func):
        ename = self._exc_class_name(exc)
        for h in handlers:
            names = self._handler_names(h, func)
            for n in names:
                if n in ("BaseException", "Exception"):
                    return h
                if ename is None:
                    continue
                if n.split(".")[-1] == ename.split(".")[-1]:
                    return h
                # subclass inside the repo
                cands = self.model.classes_by_name.get(ename.split(".")[-1], [])
                for c in cands:
                    if c.is_subclass_of(n.split(".")[-1]):
                        return h
        return None

    def _exc_class_name(self, exc: Term) -> str | None:
        if exc[0] == "rec":
            return exc[1]
        if exc[0] == "new":
            return exc[1]
        if exc[0] == "call" and isinstance(exc[1], str):
            return exc[1]
        if exc[0] in ("ref", "builtin"):
            return exc[1]
        return None

    # -------------------------------------------------------------- conditions
    def as_cond(self, t: Term) -> Term:
        """Interpret a value term in boolean context."""
        h = t[0]
        if h == "const":
            return TRUE if t[1] else FALSE
        if h in ("in", "eq", "ne", "lt", "le", "isinstance", "isnone", "subset", "psubset", "truth", "any", "all",
                 "disjoint", "is"):
            return t
        if h == "not":
            inner = self.as_cond(t[1])
            return self.negate(inner)
        if h in ("and", "or"):
            parts = [self.as_cond(x) for x in t[1:]]
            return self.mk_bool(h, parts)
        if h == "empty":
            return FALSE
        if h == "orelse":
            # `a or b` on values: truthy iff one of them is
            return self.mk_bool("or", [self.as_cond(t[1]), self.as_cond(t[2])])
        if h in ("setlit", "listlit", "tuplelit", "dictlit"):
            return TRUE if t[1] else FALSE
        if h == "rec":
            return TRUE
        typ = self.typeof(t)
        if typ == "bool":
            return t
        if typ == "none":
            return FALSE
        return ("truth", t)

    def mk_bool(self, h: str, parts: list[Term]) -> Term:
        flat = []
        for p in parts:
            if p[0] == h:
                flat.extend(p[1:])
            else:
                flat.append(p)
        if h == "and":
            if any(p == FALSE for p in flat):
                return FALSE
            flat = [p for p in flat if p != TRUE]
            if not flat:
                return TRUE
        else:
            if any(p == TRUE for p in flat):
                return TRUE
            flat = [p for p in flat if p != FALSE]
            if not flat:
                return FALSE
        if len(flat) == 1:
            return flat[0]
        return (h,) + tuple(flat)

    def negate(self, c: Term) -> Term:
        if c == TRUE:
            return FALSE
        if c == FALSE:
            return TRUE
        if c[0] == "not":
            return c[1]
        if c[0] == "eq":
            return ("ne", c[1], c[2])
        if c[0] == "ne":
            return ("eq", c[1], c[2])
        return ("not", c)

    # -------------------------------------------------------------- expressions
    def eval(self, e: ast.expr, state: State, func: Func, stmt_ctx: bool = False) -> list[tuple[State, Term]]:
        """Evaluate an expression; may fork (inlined callee with several paths)."""
        try:
            return self._eval(e, state, func, stmt_ctx)
        except RecursionError:  # pragma: no cover
            return [(state, unknown("recursion-limit", getattr(e, "lineno", 0)))]

    def eval1(self, e: ast.expr, state: State, func: Func) -> Term:
        """Evaluate to a single term, folding forks into ite/bottom."""
        outs = self.eval(e, state, func)
        return self._fold(outs, state)

    def _fold(self, outs, state: State) -> Term:
        if len(outs) == 1:
            return outs[0][1]
        base = len(state.conds)
        res = None
        for s, v in reversed(outs):
            extra = s.conds[base:]
            c = self.mk_bool("and", list(extra)) if extra else TRUE
            if res is None:
                res = v
            else:
                res = ("ite", c, v, res)
        return res if res is not None else unknown("no-paths")

    _BOOLISH = ("in", "eq", "ne", "not", "and", "or", "isinstance", "truth", "any", "all", "lt", "le", "subset", "psubset", "isnone", "disjoint")

    def _evals_short_circuit(self, e: ast.BoolOp, state: State, func: Func, finished: list) -> list:
        """Operands of `a and b` / `a or b`, left to right.  An operand whose evaluation forks (an inlined callee with a raising path, a case
        distinction) is evaluated only on the inputs that reach it -- the earlier operands all true (all false for `or`) --; the inputs that do
        not reach it are finished with the value the earlier operands decide.  (Operands that evaluate to one term are combined as before.)"""
        is_and = isinstance(e.op, ast.And)
        work = [(state, [])]
        for ve in e.values:
            nxt = []
            for s, acc in work:
                res = self.eval(ve, s, func)
                if len(res) == 1 and res[0][1][0] != "bottom":
                    nxt.append((res[0][0], acc + [res[0][1]]))
                    continue
                boolish = all(a[0] in self._BOOLISH or a in (TRUE, FALSE) or self.typeof(a) == "bool" for a in acc)
                if acc and boolish:
                    pre = self.mk_bool("and" if is_and else "or", [self.as_cond(a) for a in acc])
                    reach = pre if is_and else self.negate(pre)
                    if reach != TRUE:
                        s_skip = s.assume(self.negate(reach))
                        if reach != FALSE and not self.infeasible(s_skip.conds):
                            finished.append((s_skip, FALSE if is_and else TRUE))
                        elif reach == FALSE:
                            finished.append((s, FALSE if is_and else TRUE))
                            continue
                        s_r = s.assume(reach)
                        if self.infeasible(s_r.conds):
                            continue
                        res = self.eval(ve, s_r, func)
                    acc = []
                for s2, v in res:
                    nxt.append((s2, acc + [v]))
            work = nxt
        return work

    def _evals(self, es: list[ast.expr], state: State, func: Func) -> list[tuple[State, list[Term]]]:
        outs = [(state, [])]
        for e in es:
            nxt = []
            for s, acc in outs:
                if isinstance(e, ast.Starred):
                    for s2, v in self.eval(e.value, s, func):
                        if v[0] in ("tuplelit", "listlit"):
                            nxt.append((s2, acc + list(v[1])))
                        else:
                            nxt.append((s2, acc + [("star", v)]))
                else:
                    for s2, v in self.eval(e, s, func):
                        nxt.append((s2, acc + [v]))
            outs = nxt
        return outs

    def _eval(self, e: ast.expr, state: State, func: Func, stmt_ctx: bool = False):
        line = getattr(e, "lineno", 0)
        if isinstance(e, ast.Constant):
            return [(state, const(e.value))]
        if isinstance(e, ast.Name):
            return [(state, self.lookup(e.id, state, func, line))]
        if isinstance(e, ast.Attribute):
            outs = []
            for s, b in self.eval(e.value, state, func):
                outs.extend(self.get_attr(b, e.attr, s, func, line))
            return outs
        if isinstance(e, ast.Call):
            return self.eval_call(e, state, func, stmt_ctx)
        if isinstance(e, ast.BinOp):
            outs = []
            for s, (l, r) in [(s, tuple(v)) for s, v in self._evals([e.left, e.right], state, func)]:
                outs.extend(self.binop(e.op, l, r, s, func, line))
            return outs
        if isinstance(e, ast.UnaryOp):
            outs = []
            for s, v in self.eval(e.operand, state, func):
                if v[0] == "bottom":
                    outs.append((s, v))
                elif isinstance(e.op, ast.Not):
                    outs.append((s, self.negate(self.as_cond(v))))
                elif isinstance(e.op, ast.USub) and v[0] == "const" and isinstance(v[1], (int, float)):
                    outs.append((s, const(-v[1])))
                else:
                    sym = {ast.USub: "neg", ast.UAdd: "pos", ast.Invert: "invert"}[type(e.op)]
                    outs.extend(self.unop(sym, v, s, func, line))
            return outs
        if isinstance(e, ast.BoolOp):
            outs = []
            for s, vals in self._evals_short_circuit(e, state, func, outs):
                h = "and" if isinstance(e.op, ast.And) else "or"
                if any(v[0] == "bottom" for v in vals):
                    # `a and b` where b raises: raises exactly when a holds (and, for `or`, when a does not)
                    k = next(i for i, v in enumerate(vals) if v[0] == "bottom")
                    res = vals[k]
                    for v in reversed(vals[:k]):
                        cv = self.as_cond(v)
                        res = ("ite", cv, res, FALSE) if h == "and" else ("ite", cv, TRUE, res)
                    outs.append((s, res))
                    continue
                # value-level `x or default`
                if h == "or" and len(vals) == 2 and self.typeof(vals[0]) != "bool" and vals[0][0] not in (
                    "in", "eq", "ne", "not", "and", "or", "isinstance", "truth", "any", "all", "lt", "le", "subset", "psubset", "isnone"):
                    a, b = vals
                    if a == NONE or a == EMPTY or (a[0] in ("listlit", "tuplelit", "setlit") and not a[1]):
                        outs.append((s, b))
                    elif a[0] in ("rec",):
                        outs.append((s, a))
                    else:
                        outs.append((s, ("orelse", a, b)))
                    continue
                outs.append((s, self.mk_bool(h, [self.as_cond(v) for v in vals])))
            return outs
        if isinstance(e, ast.Compare):
            outs = []
            for s, vals in self._evals([e.left] + list(e.comparators), state, func):
                bot = next((v_ for v_ in vals if v_[0] == "bottom"), None)
                if bot is not None:
                    outs.append((s, bot))  # an operand raised: so does the comparison
                    continue
                parts = []
                for op, a, b in zip(e.ops, vals, vals[1:]):
                    parts.append(self.compare(op, a, b))
                outs.append((s, self.mk_bool("and", parts)))
            return outs
        if isinstance(e, ast.IfExp):
            outs = []
            for s, c in self.eval(e.test, state, func):
                c = self.as_cond(c)
                if c == TRUE:
                    outs.extend(self.eval(e.body, s, func))
                elif c == FALSE:
                    outs.extend(self.eval(e.orelse, s, func))
                else:
                    a = self.eval1(e.body, s, func)
                    b = self.eval1(e.orelse, s, func)
                    outs.append((s, ("ite", c, a, b)))
            return outs
        if isinstance(e, (ast.Tuple, ast.List, ast.Set)):
            kind = {ast.Tuple: "tuplelit", ast.List: "listlit", ast.Set: "setlit"}[type(e)]
            return [(s, next((v_ for v_ in vals if v_[0] == "bottom"), (kind, tuple(vals)))) for s, vals in self._evals(e.elts, state, func)]
        if isinstance(e, ast.Dict):
            outs = []
            keys = [k for k in e.keys]
            if any(k is None for k in keys):
                return [(state, unknown("dict-unpack", line))]
            for s, vals in self._evals(list(keys) + list(e.values), state, func):
                n = len(keys)
                outs.append((s, ("dictlit", tuple(zip(vals[:n], vals[n:])))))
            return outs
        if isinstance(e, (ast.ListComp, ast.SetComp, ast.GeneratorExp, ast.DictComp)):
            # the first generator's iterable is evaluated path by path (a callee that can raise yields a raising path, not a
            # case distinction buried in the comprehension)
            outs = []
            for s_i, it_i in self.eval(e.generators[0].iter, state, func):
                if it_i[0] == "bottom":
                    outs.append((s_i, it_i))
                else:
                    outs.extend(self._lift_comp_raises(s_i, self.eval_comp(e, s_i, func, first_iter=it_i)))
            return outs
        if isinstance(e, ast.Subscript):
            outs = []
            for s, b in self.eval(e.value, state, func):
                if isinstance(e.slice, ast.Slice):
                    lo = self.eval1(e.slice.lower, s, func) if e.slice.lower is not None else NONE
                    hi = self.eval1(e.slice.upper, s, func) if e.slice.upper is not None else NONE
                    if e.slice.step is not None:
                        outs.append((s, ("slice3", b, lo, hi, self.eval1(e.slice.step, s, func))))
                    elif b[0] in ("tuplelit", "listlit") and not any(x[0] == "star" for x in b[1]) and all(
                            z == NONE or (z[0] == "const" and isinstance(z[1], int)) for z in (lo, hi)):
                        # a literal sequence sliced at constant positions
                        items = b[1][(None if lo == NONE else lo[1]):(None if hi == NONE else hi[1])]
                        outs.append((s, (b[0], tuple(items))))
                    else:
                        outs.append((s, ("slice", b, lo, hi)))
                else:
                    for s2, i in self.eval(e.slice, s, func):
                        outs.extend(self.get_item(b, i, s2, func, line))
            return outs
        if isinstance(e, ast.JoinedStr):
            parts = []
            for v in e.values:
                if isinstance(v, ast.Constant):
                    parts.append(const(v.value))
                elif isinstance(v, ast.FormattedValue):
                    inner_ = self.eval1(v.value, state, func)
                    if inner_[0] == "const" and isinstance(inner_[1], str) and v.conversion == -1 and v.format_spec is None:
                        parts.append(inner_)  # f"{'P'}[" is "P["
                    elif inner_[0] == "fstr" and v.conversion == -1 and v.format_spec is None:
                        parts.extend(inner_[1])  # an f-string spliced into an f-string
                    else:
                        parts.append(("fmt", inner_, const(v.conversion)))
            merged_: list = []
            for q_ in parts:
                if merged_ and q_[0] == "const" and isinstance(q_[1], str) and merged_[-1][0] == "const" and isinstance(merged_[-1][1], str):
                    merged_[-1] = const(merged_[-1][1] + q_[1])
                else:
                    merged_.append(q_)
            return [(state, ("fstr", tuple(merged_)))]
        if isinstance(e, ast.Lambda):
            # alpha-canonical closure: ('lam', (bound parameter variables), body term); free names are captured by value
            a = e.args
            if a.vararg or a.kwarg or a.kwonlyargs or a.defaults:
                return [(state, ("lambda", id(e), unparse(e)))]
            s2 = state.fork()
            params = []
            for p_ in a.posonlyargs + a.args:
                v = self.fresh(p_.arg.strip("_") + "_" if p_.arg.strip("_") else "a_")
                s2.env[p_.arg] = v
                params.append(v)
            try:
                body = self.eval1(e.body, s2, func)
            except Budget:
                raise
            return [(state, ("lam", tuple(params), body))]
        if isinstance(e, ast.Starred):
            return [(s, ("star", v)) for s, v in self.eval(e.value, state, func)]
        if isinstance(e, ast.NamedExpr):
            outs = []
            for s, v in self.eval(e.value, state, func):
                s2 = s.fork()
                self.assign(e.target, v, s2, func)
                outs.append((s2, v))
            return outs
        if isinstance(e, (ast.Yield, ast.YieldFrom)):
            return [(state, unknown("yield-expr", line))]
        self.unknowns.append((func.qname, line, "expr:" + type(e).__name__))
        return [(state, unknown("expr:" + type(e).__name__, line))]

    # -------------------------------------------------------------- names
    _table_cache: dict = {}

    def _constant_table(self, m: Module, name: str, v: ast.expr) -> Term | None:
        """A module-level dict / tuple / list / set LITERAL of constants and references to the repository's functions and classes (a dispatch
        table), which no code in the repository writes to: the name stands for the literal."""
        key = (id(self.model), m.name, name)
        if key in self._table_cache:
            return self._table_cache[key]
        self._table_cache[key] = None
        is_partial = isinstance(v, ast.Call) and ((isinstance(v.func, ast.Name) and v.func.id == "partial") or (isinstance(v.func, ast.Attribute) and v.func.attr == "partial"))
        if isinstance(v, ast.Call) and isinstance(v.func, ast.Name) and not is_partial:
            # NAME = Cls(constants...): a module-level instance of a repository class that has no state to change (no fields, or a frozen dataclass)
            rc = self.model.resolve_name(m, v.func.id)
            if isinstance(rc, Cls) and (not list(rc.all_fields()) or any(
                    isinstance(d, ast.Call) and getattr(d.func, "id", getattr(d.func, "attr", "")) == "dataclass" and any(
                        k.arg == "frozen" and isinstance(k.value, ast.Constant) and k.value.value is True for k in d.keywords) for d in rc.node.decorator_list)):
                is_partial = all(isinstance(a, ast.Constant) for a in v.args) and all(k.arg is not None and isinstance(k.value, ast.Constant) for k in v.keywords)
        if not isinstance(v, (ast.Dict, ast.Tuple, ast.List, ast.Set)) and not is_partial:
            return None

        def closed(e: ast.expr) -> bool:
            if isinstance(e, ast.Constant):
                return True
            if isinstance(e, ast.Call) and e is v and is_partial:
                # NAME = partial(f, fixed arguments): a function value
                return all(closed(x) for x in e.args) and all(k.arg is not None and closed(k.value) for k in e.keywords)
            if isinstance(e, ast.Name):
                r = self.model.resolve_name(m, e.id)
                if r is None and (e.id in BUILTINS or e.id in dir(__builtins__)):
                    return True
                return isinstance(r, (Func, Cls)) or (isinstance(r, tuple) and r[0] == "const" and isinstance(r[2], ast.Constant))
            if isinstance(e, (ast.Tuple, ast.List, ast.Set)):
                return all(closed(x) for x in e.elts)
            if isinstance(e, ast.Dict):
                return all(k is not None and closed(k) and closed(x) for k, x in zip(e.keys, e.values))
            return False

        if not closed(v):
            return None
        # written anywhere?  NAME[...] = .. / del NAME[...] / NAME.mutator(..) / NAME op= .. / global NAME
        for mod in self.model.modules.values():
            for n in ast.walk(mod.tree):
                tgt = None
                if isinstance(n, ast.Subscript) and isinstance(n.ctx, (ast.Store, ast.Del)):
                    tgt = n.value
                elif isinstance(n, ast.Call) and isinstance(n.func, ast.Attribute) and n.func.attr in MUTATORS:
                    tgt = n.func.value
                elif isinstance(n, ast.AugAssign):
                    tgt = n.target
                elif isinstance(n, ast.Global) and name in n.names:
                    return None
                if tgt is None:
                    continue
                while isinstance(tgt, ast.Subscript):
                    tgt = tgt.value
                if (isinstance(tgt, ast.Name) and tgt.id == name) or (isinstance(tgt, ast.Attribute) and tgt.attr == name):
                    return None
        import types

        ctx = types.SimpleNamespace(module=m, qname=f"{m.name}.<module>", cls=None, node=None, params=[], is_generator=False)
        try:
            res = self.eval(v, State({}), ctx)  # type: ignore[arg-type]
        except Exception:  # noqa: BLE001
            return None
        if len(res) != 1:
            return None
        self._table_cache[key] = res[0][1]
        return res[0][1]

    def lookup(self, name: str, state: State, func: Func, line: int) -> Term:
        if name in state.env:
            return state.env[name]
        r = self.model.resolve_name(func.module, name)
        if isinstance(r, Func):
            return ("ref", r.qname)
        if isinstance(r, Cls):
            return ("ref", r.qname)
        if isinstance(r, Module):
            return ("module", r.name)
        if isinstance(r, tuple):
            if r[0] == "external":
                return ("external", r[1])
            if r[0] == "const":
                m, v = r[1], r[2]
                for _hop in range(5):
                    # NAME = OTHER_NAME: an alias of whatever OTHER_NAME is in that module
                    if not isinstance(v, ast.Name):
                        break
                    r2 = self.model.resolve_name(m, v.id)
                    if isinstance(r2, (Func, Cls)):
                        return ("ref", r2.qname)
                    if isinstance(r2, tuple) and r2 and r2[0] == "const":
                        name, m, v = v.id, r2[1], r2[2]
                        continue
                    break
                if isinstance(v, ast.Constant):
                    return const(v.value)
                lit = self._constant_table(m, name, v)
                if lit is not None:
                    return lit
                if isinstance(v, ast.Call) and isinstance(v.func, ast.Name) and v.func.id in ("frozenset", "tuple") and not v.keywords and (
                        not v.args or (len(v.args) == 1 and isinstance(v.args[0], (ast.List, ast.Tuple, ast.Set)) and not v.args[0].elts)):
                    # NAME = frozenset() / tuple(): an immutable empty constant is its value wherever it is read
                    try:
                        outs_ = self.eval(v, State({}), func)
                        if len(outs_) == 1 and not outs_[0][0].conds:
                            return outs_[0][1]
                    except Exception:  # noqa: BLE001
                        pass
                g = ("global", f"{m.name}.{name}")
                # instance of a repo class, e.g.  P = ProbabilityBuilderType()
                if isinstance(v, ast.Call) and isinstance(v.func, ast.Name):
                    rc = self.model.resolve_name(m, v.func.id)
                    if isinstance(rc, Cls):
                        self.set_type(g, ("cls", rc.qname))
                return g
        if name in BUILTINS or name in dir(__builtins__) or name in ("True", "False", "None"):
            return ("builtin", name)
        import builtins

        if hasattr(builtins, name):
            return ("builtin", name)
        return unknown(f"name:{name}", line)

    # -------------------------------------------------------------- attributes
    def get_attr(self, b: Term, attr: str, state: State, func: Func, line: int):
        if b[0] == "bottom":
            return [(state, b)]
        if b[0] == "rec":
            for k, v in b[2]:
                if k == attr:
                    return [(state, v)]
        if b[0] == "mut" and b[1][0] == "rec":
            # latest setattr wins, else fall to the record
            for eff in reversed(b[2]):
                if eff[0] == "setattr" and eff[1] == attr:
                    return [(state, eff[2])]
            return self.get_attr(b[1], attr, state, func, line)
        if b[0] == "module":
            r = self.model.resolve_qualified(f"{b[1]}.{attr}")
            if isinstance(r, (Func, Cls)):
                return [(state, ("ref", r.qname))]
            if isinstance(r, Module):
                return [(state, ("module", r.name))]
            return [(state, ("global", f"{b[1]}.{attr}"))]
        if b[0] == "external":
            return [(state, ("external", f"{b[1]}.{attr}"))]
        if b[0] == "ref":
            r = self.model.resolve_qualified(b[1])
            if isinstance(r, Cls):
                f = r.find_method(attr)
                if f is not None:
                    return [(state, ("boundref", f.qname, b if f.is_classmethod else None))]
            return [(state, ("attr", b, attr))]
        if b[0] == "super" and isinstance(b[1], str) and b[1] in self.model.classes:
            # super().m: the next definition of m after the current class in its MRO, bound to the same object
            k0 = self.model.classes[b[1]]
            for base in k0.mro()[1:]:
                f = base.methods.get(attr) if hasattr(base, "methods") else None
                if f is not None:
                    if f.is_property:
                        return self.inline(f, [], {}, state, func, line, self_term=b[2])
                    return [(state, ("superbound", f.qname, b[2]))]
        c = self.cls_of(b)
        if c is not None and attr == "__class__":
            return [(state, ("ref", c.qname))]
        if c is not None:
            f = c.find_method(attr)
            if f is not None:
                if f.is_property:
                    if f.qname in self.primitives or c.qname in self.opaque_classes or self.is_virtual(b, c, attr):
                        t = ("attr", b, attr)
                        self.set_type(t, self.parse_ann(f.module, f.node.returns))
                        return [(state, t)]
                    return self.inline(f, [], {}, state, func, line, self_term=b)
                return [(state, ("bound", b, attr))]
        return [(state, ("attr", b, attr))]

    def _namedtuple_fields(self, v: Term):
        """field names of v's class when it is a typing.NamedTuple (position i IS field i), else None"""
        c = self.cls_of(v)
        if c is None:
            typ = self.typeof(v)
            if isinstance(typ, tuple) and typ and typ[0] == "union":
                cs = [self.model.classes.get(t_[1]) for t_ in typ[1] if isinstance(t_, tuple) and t_ and t_[0] == "cls"]
                cs = [x for x in cs if x is not None]
                c = cs[0] if len(cs) == 1 else None
        if c is None:
            return None
        if not any(isinstance(b, ast.Name) and b.id == "NamedTuple" or isinstance(b, ast.Attribute) and b.attr == "NamedTuple" for b in c.base_exprs):
            return None
        return list(c.all_fields())

    def _positional(self, v: Term, i: int) -> Term:
        fs = self._namedtuple_fields(v)
        if fs is not None and -len(fs) <= i < len(fs):
            return ("attr", v, fs[i])  # a NamedTuple's position i is its i-th field: one spelling (the field) is kept
        return ("index", v, const(i))

    def get_item(self, b: Term, i: Term, state: State, func: Func, line: int):
        if b[0] in ("tuplelit", "listlit") and i[0] == "const" and isinstance(i[1], int) and -len(b[1]) <= i[1] < len(b[1]):
            return [(state, b[1][i[1]])]
        if i[0] == "const" and isinstance(i[1], int) and not isinstance(i[1], bool) and b[0] in ("var", "call", "meth", "attr", "recurse"):
            t_ = self._positional(b, i[1])
            if t_[0] == "attr":
                return [(state, t_)]
        if b[0] == "dictlit":
            for k, v in b[1]:
                if k == i:
                    return [(state, v)]
        if b[0] == "ref":
            r = self.model.resolve_qualified(b[1])
            if isinstance(r, Cls):
                f = r.find_method("__class_getitem__")
                if f is not None:
                    if f.qname in self.primitives or r.qname in self.primitives:
                        return [(state, ("call", f.qname, (i,), ()))]
                    return self.inline(f, [i], {}, state, func, line, self_term=b)
        c = self.cls_of(b)
        if c is not None:
            f = c.find_method("__getitem__")
            if f is not None:
                if f.qname in self.primitives or c.qname in self.primitives or c.qname in self.opaque_classes:
                    return [(state, ("meth", b, "__getitem__", (i,), ()))]
                return self.inline(f, [i], {}, state, func, line, self_term=b)
        return [(state, ("index", b, i))]

    # -------------------------------------------------------------- operators
    def binop(self, op: ast.operator, l: Term, r: Term, state: State, func: Func, line: int):
        sym = {
            ast.Sub: "-", ast.BitOr: "|", ast.BitAnd: "&", ast.BitXor: "^", ast.Mult: "*", ast.Div: "/",
            ast.Add: "+", ast.MatMult: "@", ast.Mod: "%", ast.FloorDiv: "//", ast.Pow: "**",
            ast.LShift: "<<", ast.RShift: ">>",
        }[type(op)]
        if l[0] == "bottom":
            return [(state, l)]
        if r[0] == "bottom":
            return [(state, r)]
        if l[0] == "const" and r[0] == "const" and isinstance(l[1], bool) and isinstance(r[1], bool) and sym in ("|", "&", "^"):
            return [(state, const({"|": l[1] | r[1], "&": l[1] & r[1], "^": l[1] ^ r[1]}[sym]))]
        if sym in ("|", "&") and (l[0] == "const" and isinstance(l[1], bool) or r[0] == "const" and isinstance(r[1], bool)):
            # `a | b` / `a & b` on truth values (no short-circuit, same value)
            k, other = (l, r) if l[0] == "const" and isinstance(l[1], bool) else (r, l)
            if self.as_cond(other)[0] != "truth":
                if sym == "|":
                    return [(state, TRUE if k[1] else self.as_cond(other))]
                return [(state, self.as_cond(other) if k[1] else FALSE)]
        # integer arithmetic
        if l[0] == "const" and r[0] == "const" and isinstance(l[1], (int, float)) and isinstance(r[1], (int, float)) and not isinstance(l[1], bool):
            try:
                v = {"+": lambda a, b: a + b, "-": lambda a, b: a - b, "*": lambda a, b: a * b, "//": lambda a, b: a // b,
                     "%": lambda a, b: a % b}.get(sym)
                if v:
                    return [(state, const(v(l[1], r[1])))]
            except Exception:
                pass
        lt, rt = self.typeof(l), self.typeof(r)
        dunder = {"-": "__sub__", "|": "__or__", "&": "__and__", "*": "__mul__", "/": "__truediv__", "@": "__matmul__",
                  "+": "__add__", "^": "__xor__"}.get(sym)
        lc = self.cls_of(l)
        if lc is not None and dunder:
            f = lc.find_method(dunder)
            if f is not None:
                if f.qname in self.primitives or lc.qname in self.opaque_classes or dunder in self.prim_methods or self.is_virtual(l, lc, dunder):
                    return [(state, ("op", sym, l, r))]
                return self.inline(f, [r], {}, state, func, line, self_term=l)
            rc = self.cls_of(r)
            if rc is not None:
                rf = rc.find_method("__r" + dunder[2:])
                if rf is not None:
                    if rf.qname in self.primitives or rc.qname in self.opaque_classes:
                        return [(state, ("op", sym, l, r))]
                    return self.inline(rf, [l], {}, state, func, line, self_term=r)
            return [(state, ("op", sym, l, r))]
        if sym == "|" and (self._is_dictlike(l) or self._is_dictlike(r)):
            return [(state, ("op", sym, l, r))]  # dict union keeps the values: not a set of keys
        if sym in ("-", "|", "&"):
            ls, rs = self.is_setlike(l), self.is_setlike(r)
            numeric = lt in ("int", "float") or rt in ("int", "float")
            if not numeric and (ls or rs or (ls is None and rs is None and lt is None and rt is None) or ls is None or rs is None):
                if lt in ("str",) or rt in ("str",):
                    return [(state, ("op", sym, l, r))]
                h = {"-": "diff", "|": "union", "&": "inter"}[sym]
                return [(state, self.mk_set(h, l, r))]
        if sym == "+" and (l[0] in ("listlit", "tuplelit", "concat") or r[0] in ("listlit", "tuplelit") or (isinstance(lt, tuple) and lt[0] in ("list", "tuple"))):
            return [(state, self._concat(l, r))]
        return [(state, ("op", sym, l, r))]

    def unop(self, sym: str, v: Term, state: State, func: Func, line: int):
        c = self.cls_of(v)
        d = {"neg": "__neg__", "pos": "__pos__", "invert": "__invert__"}[sym]
        if c is not None:
            f = c.find_method(d)
            if f is not None and not (f.qname in self.primitives or c.qname in self.opaque_classes):
                return self.inline(f, [], {}, state, func, line, self_term=v)
        return [(state, ("uop", sym, v))]

    def mk_set(self, h: str, a: Term, b: Term) -> Term:
        if h == "union":
            parts = []
            for x in (a, b):
                if x[0] == "union":
                    parts.extend(x[1:])
                elif x == EMPTY or x == ("setlit", ()):
                    continue
                else:
                    parts.append(x)
            if not parts:
                return EMPTY
            if len(parts) == 1:
                return ("setof", parts[0]) if parts[0][0] not in ("union", "inter", "diff", "setof", "comp", "setlit") else parts[0]
            return ("union",) + tuple(parts)
        return (h, a, b)

    def _is_sentinel(self, t: Term) -> bool:
        """a module-level constant defined as `object()`"""
        if t[0] != "global" or not isinstance(t[1], str) or "." not in t[1]:
            return False
        mod, _, nm = t[1].rpartition(".")
        m_ = self.model.modules.get(mod)
        v_ = m_.constants.get(nm) if m_ is not None else None
        return isinstance(v_, ast.Call) and isinstance(v_.func, ast.Name) and v_.func.id == "object" and not v_.args

    def compare(self, op: ast.cmpop, a: Term, b: Term) -> Term:
        if isinstance(op, (ast.In, ast.NotIn)) and a[0] == "const":
            items = self._concrete_set_items(b)
            if items is not None:
                # a constant looked up in a collection of known constants
                res = TRUE if a in items else FALSE
                return res if isinstance(op, ast.In) else self.negate(res)
        if isinstance(op, (ast.In, ast.NotIn)):
            items = self._literal_items(b)
            if items is not None and len(items) <= 6:
                # x in [e0, e1]: x == e0 or x == e1 -- folded only when every comparison is decided by the operands' classes
                eqs = [self._eq_by_class(a, x_) for x_ in items]
                if all(q_ in (TRUE, FALSE) for q_ in eqs):
                    res = TRUE if TRUE in eqs else FALSE
                    return res if isinstance(op, ast.In) else self.negate(res)
        if isinstance(op, ast.In):
            return ("in", a, b)
        if isinstance(op, ast.NotIn):
            return ("not", ("in", a, b))
        if isinstance(op, (ast.Is, ast.IsNot)):
            if b == NONE or a == NONE:
                x = a if b == NONE else b
                res = self.isnone(x)
            elif a == b and a[0] in ("global", "var", "ref", "const"):
                res = TRUE  # the same name denotes the same object
            elif (self._is_sentinel(a) and b[0] in ("rec", "new", "const", "tuplelit", "listlit", "setlit", "dictlit", "comp")) or (
                    self._is_sentinel(b) and a[0] in ("rec", "new", "const", "tuplelit", "listlit", "setlit", "dictlit", "comp")):
                res = FALSE  # a module-level `object()` marker is no freshly built value
            elif (self._is_sentinel(a) and isinstance(self.typeof(b), tuple) and self.typeof(b)[0] == "cls") or (
                    self._is_sentinel(b) and isinstance(self.typeof(a), tuple) and self.typeof(a)[0] == "cls"):
                res = FALSE  # ... nor an instance of one of the repository's classes
            else:
                res = ("is", a, b)
            return res if isinstance(op, ast.Is) else self.negate(res)
        if isinstance(op, (ast.Eq, ast.NotEq)):
            if a[0] == "const" and b[0] == "const":
                res = TRUE if a[1] == b[1] and type(a[1]) is type(b[1]) else FALSE
            elif a == b and not has_unknown(a):
                res = TRUE
            else:
                res = self._eq_by_class(a, b)
            return res if isinstance(op, ast.Eq) else self.negate(res)
        if a[0] == "const" and b[0] == "const" and isinstance(a[1], (int, float)) and isinstance(b[1], (int, float)) and not isinstance(a[1], bool) and not isinstance(b[1], bool):
            v = {ast.Lt: a[1] < b[1], ast.LtE: a[1] <= b[1], ast.Gt: a[1] > b[1], ast.GtE: a[1] >= b[1]}.get(type(op))
            if v is not None:
                return TRUE if v else FALSE
        setty = self.is_setlike(a) or self.is_setlike(b)
        if isinstance(op, ast.Lt):
            return ("psubset", a, b) if setty else ("lt", a, b)
        if isinstance(op, ast.LtE):
            return ("subset", a, b) if setty else ("le", a, b)
        if isinstance(op, ast.Gt):
            return ("psubset", b, a) if setty else ("lt", b, a)
        if isinstance(op, ast.GtE):
            return ("subset", b, a) if setty else ("le", b, a)
        return unknown("cmp")

    def _exact_class(self, t: Term) -> Cls | None:
        """The dynamic class of a value, when it is known exactly: a constructor term, or a value typed with a class without subclasses."""
        if t[0] in ("rec", "new") and isinstance(t[1], str):
            return self.model.classes.get(t[1])
        typ = self.types.get(t)
        if isinstance(typ, tuple) and typ and typ[0] == "cls":
            c = self.model.classes.get(typ[1])
            if c is not None and not c.all_subclasses():
                return c
        return None

    def _possible_classes(self, t: Term) -> set | None:
        if t[0] in ("rec", "new") and isinstance(t[1], str):
            c = self.model.classes.get(t[1])
            return {c.qname} if c is not None else None
        typ = self.types.get(t)
        if isinstance(typ, tuple) and typ and typ[0] == "cls":
            c = self.model.classes.get(typ[1])
            if c is not None:
                return {c.qname} | {k.qname for k in c.all_subclasses()}
        return None

    def _eq_by_class(self, a: Term, b: Term) -> Term:
        """Dataclass equality compares the class first: values whose possible dynamic classes are disjoint are unequal; two values of
        one field-less dataclass are equal."""
        pa, pb = self._possible_classes(a), self._possible_classes(b)
        if pa is not None and pb is not None:
            # a hand-written __eq__ (e.g. `return isinstance(other, One)`) decides: Python asks the left operand first; a generated
            # dataclass __eq__ answers NotImplemented for another class, then the right operand's __eq__ is asked with swapped roles
            def custom(poss):
                if len(poss) != 1:
                    return None
                c = self.model.classes[next(iter(poss))]
                m = c.find_method("__eq__")
                return m if m is not None and m.cls is not None and not m.cls.is_dataclass else None
            def is_dc(poss):
                return all(self.model.classes[q].is_dataclass or any(k.is_dataclass for k in self.model.classes[q].mro()) for q in poss)
            for x, y, px, py in ((a, b, pa, pb), (b, a, pb, pa)):
                m = custom(px)
                if m is not None and (x is a or (is_dc(py) and not (px & py))) and len(self.stack) < self.max_depth and len(m.params) == 2:
                    try:
                        ps = self._run(m, {m.params[1]: y}, x)
                    except Exception:  # noqa: BLE001
                        ps = []
                    if len(ps) == 1 and ps[0].kind == "return" and not ps[0].conds:
                        return self.as_cond(ps[0].value)
                    break
            def dc(q):
                c = self.model.classes[q]
                return c.is_dataclass or any(k.is_dataclass for k in c.mro())
            if all(dc(q) for q in pa | pb):
                if not (pa & pb):
                    return FALSE
                if len(pa) == 1 and pa == pb and not self.model.classes[next(iter(pa))].all_fields():
                    return TRUE
        return ("eq", a, b)

    def _literal_items(self, t: Term) -> list | None:
        """Elements of a statically known finite sequence (after tuple()/list()/iter() wrappers), else None."""
        while t[0] == "call" and t[1] in ("tuple", "list", "iter") and len(t[2]) == 1 and not t[3]:
            t = t[2][0]
        if t[0] in ("listlit", "tuplelit") and not any(x[0] == "star" for x in t[1]):
            return list(t[1])
        if t[0] == "call" and t[1] == "enumerate" and t[2] and len(t[2]) <= 2:
            inner = self._literal_items(t[2][0])
            start = dict(t[3]).get("start", t[2][1] if len(t[2]) == 2 else const(0))
            if inner is not None and start[0] == "const" and isinstance(start[1], int):
                return [("tuplelit", (const(start[1] + i), x)) for i, x in enumerate(inner)]
        if t[0] == "call" and t[1] == "range" and 1 <= len(t[2]) <= 2 and all(a[0] == "const" and isinstance(a[1], int) for a in t[2]) and not t[3]:
            vals = range(*[a[1] for a in t[2]])
            if len(vals) <= 8:
                return [const(v) for v in vals]
        if t[0] == "comp" and t[1] in ("list", "gen") and len(t[3]) == 0:
            return None
        return None

    def _concrete_set_items(self, t: Term, depth: int = 0) -> list | None:
        """The elements of a set whose content is fully known (built from literals of constants), else None."""
        if depth > 20:
            return None
        if t == EMPTY:
            return []
        if t[0] in ("setlit", "listlit", "tuplelit") and all(x[0] == "const" for x in t[1]):
            return list(t[1])
        if t[0] == "setof":
            return self._concrete_set_items(t[1], depth + 1)
        if t[0] == "call" and t[1] in ("set", "frozenset", "list", "tuple") and len(t[2]) <= 1 and not t[3]:
            return [] if not t[2] else self._concrete_set_items(t[2][0], depth + 1)
        if t[0] == "union":
            out = []
            for x in t[1:]:
                r = self._concrete_set_items(x, depth + 1)
                if r is None:
                    return None
                out.extend(r)
            return out
        if t[0] == "diff" and len(t) == 3:
            a, b = self._concrete_set_items(t[1], depth + 1), self._concrete_set_items(t[2], depth + 1)
            if a is None or b is None:
                return None
            return [x for x in a if x not in b]
        return None

    def isnone(self, x: Term) -> Term:
        if x == NONE:
            return TRUE
        if x[0] in ("rec", "setof", "union", "diff", "inter", "comp", "listlit", "tuplelit", "setlit", "dictlit", "empty", "new"):
            return FALSE
        if x[0] == "const":
            return FALSE
        if x[0] == "call" and x[1] in ("dict", "list", "set", "frozenset", "tuple", "sorted", "str", "len", "copyof"):
            return FALSE  # constructors of the standard containers never give None
        if x[0] in ("ite", "orelse") and len(x) >= 3:
            parts = [self.isnone(b) for b in x[-2:]]
            if all(p_ == FALSE for p_ in parts):
                return FALSE
        if x[0] == "after-iteration" and self.isnone(x[1]) == FALSE:
            return FALSE
        typ = self.typeof(x)
        if typ is not None and typ != "none":
            if not (isinstance(typ, tuple) and typ[0] == "union" and "none" in typ[1]):
                return FALSE
        if typ is None and x[0] == "attr" and isinstance(x[2], str):
            # a field whose every declaration in the repository has a non-optional type (Fraction.numerator: Expression) is not None,
            # whichever of those classes the object turns out to be
            anns = [self.parse_ann(k.module, k.fields[x[2]]) for k in self.model.classes.values() if x[2] in getattr(k, "fields", {})]
            if anns and all(a is not None and a != "none" and not (isinstance(a, tuple) and a[0] == "union" and "none" in a[1]) for a in anns):
                return FALSE
        return ("isnone", x)

    # -------------------------------------------------------------- comprehensions
    _BINDERS = ("comp", "lam", "accum", "any", "all", "forall-not", "iter-elem", "after-iteration", "bigunion")

    def _split_bottoms(self, t: Term, ctx: tuple = ()) -> tuple:
        """(the term with its raising branches cut off -- None when it always raises --, [(conditions, exception), ...]): the case distinctions of
        `t` that end in a raise, each with the conditions (in evaluation order: `a and b` reaches b only when a holds) under which it is reached."""
        if not is_term(t):
            return t, []
        h = t[0]
        if h == "bottom":
            return None, [(ctx, t[1])]
        if h in self._BINDERS or h in ("const", "var", "ref", "external", "global"):
            return t, []
        if h == "ite":
            pc, lc = self._split_bottoms(t[1], ctx)
            if pc is None:
                return None, lc
            pa, la = self._split_bottoms(t[2], ctx + (pc,))
            pb, lb = self._split_bottoms(t[3], ctx + (self.negate(pc),))
            found = lc + la + lb
            if pa is None and pb is None:
                return None, found
            if pa is None:
                return pb, found
            if pb is None:
                return pa, found
            return (("ite", pc, pa, pb) if found else t), found
        if h in ("and", "or"):
            parts, found = [], []
            c2 = ctx
            for x in t[1:]:
                px, lx = self._split_bottoms(x, c2)
                found += lx
                if px is None:
                    # everything after it is never reached on that path; the operator's value is decided by what came before
                    break
                parts.append(px)
                c2 = c2 + ((px if h == "and" else self.negate(px)),)
            if not found:
                return t, []
            if not parts:
                return None, found
            return (self.mk_bool(h, parts) if len(parts) > 1 else parts[0]), found
        found = []
        new = [h]
        changed = False
        for x in t[1:]:
            if is_term(x):
                px, lx = self._split_bottoms(x, ctx)
                found += lx
                if px is None:
                    return None, found
                changed = changed or px is not x
                new.append(px)
            elif isinstance(x, tuple) and x and all(is_term(y) for y in x):
                ys = []
                for y in x:
                    py, ly = self._split_bottoms(y, ctx)
                    found += ly
                    if py is None:
                        return None, found
                    ys.append(py)
                new.append(tuple(ys))
            else:
                new.append(x)
        return (tuple(new) if found else t), found

    def _lift_comp_raises(self, state: State, c: Term):
        """A list / set / dict comprehension whose filter or element can raise for some element raises itself (it is built eagerly): the raise
        becomes a path of its own -- "for some element ..." -- exactly like the exit path of the loop that builds the same collection."""
        if not (is_term(c) and c[0] == "comp" and c[1] in ("list", "set", "dict") and c[3]) or (isinstance(c[2], tuple) and c[2] and c[2][0] == "%payload"):
            return [(state, c)]
        if not any(s_[0] == "bottom" for s_ in subterms(c)):
            return [(state, c)]
        gens = list(c[3])
        prefix: list = []   # the conditions binding the elements up to the point reached
        raises: list = []   # (conds describing one raising element, exception)
        new_gens = []
        for pat, it, conds in gens:
            if any(s_[0] == "bottom" for s_ in subterms(it)):
                return [(state, c)]
            prefix.append(("iter-elem", pat, it))
            kept = []
            for cd in conds:
                pc, found = self._split_bottoms(cd)
                for cx, exc in found:
                    raises.append((tuple(prefix) + tuple(cx), exc))
                if pc is None:
                    pc = FALSE
                kept.append(pc)
                prefix.append(pc)
            new_gens.append((pat, it, tuple(kept)))
        elt = c[2]
        pe, found = self._split_bottoms(elt)
        for cx, exc in found:
            raises.append((tuple(prefix) + tuple(cx), exc))
        if not raises:
            return [(state, c)]
        if pe is None:
            pe = unknown("comprehension element always raises")
        outs = []
        normal = state.fork()
        for cs, exc in raises:
            s2 = state.fork()
            for x in cs:
                s2 = s2.assume(x)
            outs.append((s2, ("bottom", exc)))
            first = cs[0]
            normal.conds = normal.conds + (("forall-not", first[1], first[2], tuple(cs[1:])),)
        outs.append((normal, ("comp", c[1], pe, tuple(new_gens))))
        return outs

    def eval_comp(self, e, state: State, func: Func, first_iter: Term | None = None) -> Term:
        kind = {ast.ListComp: "list", ast.SetComp: "set", ast.GeneratorExp: "gen", ast.DictComp: "dict"}[type(e)]
        s = state.fork()
        gens = []
        for gi, g in enumerate(e.generators):
            it = first_iter if (gi == 0 and first_iter is not None) else self.eval1(g.iter, s, func)
            pat = self._bind_target(g.target, s, it)
            self._type_bound(pat, it)
            for c_ in g.ifs:
                # `if (x := f(y)) is not None`: the element is built only when the test was made, so x is f(y) there
                for n_ in ast.walk(c_):
                    if isinstance(n_, ast.NamedExpr) and isinstance(n_.target, ast.Name):
                        try:
                            s.env[n_.target.id] = self.eval1(n_.value, s, func)
                        except Budget:
                            raise
                # `(x := f(y)) is not None` as a conjunct of the filter: for the elements that pass, x is the not-None case of f(y)
                conj_ = c_.values if isinstance(c_, ast.BoolOp) and isinstance(c_.op, ast.And) else [c_]
                for q_ in conj_:
                    if isinstance(q_, ast.Compare) and len(q_.ops) == 1 and isinstance(q_.ops[0], ast.IsNot) and isinstance(q_.left, ast.NamedExpr) \
                            and isinstance(q_.left.target, ast.Name) and isinstance(q_.comparators[0], ast.Constant) and q_.comparators[0].value is None:
                        v_ = s.env.get(q_.left.target.id)
                        while v_ is not None and v_[0] == "ite" and len(v_) == 4 and (v_[2] == NONE) != (v_[3] == NONE):
                            v_ = v_[3] if v_[2] == NONE else v_[2]  # every other case is None and does not pass the filter
                            s.env[q_.left.target.id] = v_
            conds = tuple(self.as_cond(self.eval1(c, s, func)) for c in g.ifs)
            if it[0] == "call" and isinstance(it[1], str) and it[1].split(".")[-1] == "product" and len(it[2]) == 1 and dict(it[3]).get("repeat") == const(2) and len(it[3]) == 1:
                it = ("call", it[1], (it[2][0], it[2][0]), ())  # product(A, repeat=2) = product(A, A)
            if (it[0] == "call" and isinstance(it[1], str) and it[1].split(".")[-1] == "product" and not it[3] and pat[0] == "tuplelit"
                    and len(pat[1]) == len(it[2]) >= 2 and all(x[0] in ("var", "tuplelit") for x in pat[1])):
                # for a, b in product(A, B)  =  for a in A for b in B
                for x, src in zip(pat[1][:-1], it[2][:-1]):
                    gens.append((x, src, ()))
                gens.append((pat[1][-1], it[2][-1], conds))
                continue
            gens.append((pat, it, conds))
        if kind == "dict":
            elt = ("kv", self.eval1(e.key, s, func), self.eval1(e.value, s, func))
        else:
            elt = self.eval1(e.elt, s, func)
        if kind in ("list", "gen") and len(e.generators) == 1:
            items = self._literal_items(gens[0][1])
            if items is not None and len(items) <= 4:
                out = []
                ok = True
                for x in items:
                    s2 = state.fork()
                    self.assign(e.generators[0].target, x, s2, func)
                    keep = True
                    for c in e.generators[0].ifs:
                        cv = self.as_cond(self.eval1(c, s2, func))
                        if cv == FALSE:
                            keep = False
                            break
                        if cv != TRUE:
                            ok = False
                            break
                    if not ok:
                        break
                    if keep:
                        out.append(self.eval1(e.elt, s2, func))
                if ok:
                    return ("listlit", tuple(out))
        if kind in ("list", "gen") and len(gens) >= 2 and gens[0][0][0] == "var" and not gens[0][2]:
            items = self._literal_items(gens[0][1])
            if items is not None and 1 <= len(items) <= 4:
                # [f(a, x) for a in (A, B) for x in g(a)] = [f(A, x) for x in g(A)] + [f(B, x) for x in g(B)]
                out = None
                for x in items:
                    m = {gens[0][0]: x}
                    part = ("comp", "list", subst(elt, m), tuple(subst(g, m) for g in gens[1:]))
                    out = part if out is None else self._concat(out, part)
                return out
        if kind != "dict" and len(gens) == 1 and gens[0][0][0] == "var":
            pat, it, conds = gens[0]
            src = it
            strip = ("list", "tuple", "iter", "set", "frozenset") if kind == "set" else ("list", "tuple", "iter")
            while src[0] == "call" and src[1] in strip and len(src[2]) == 1 and not src[3]:
                src = src[2][0]
            # a set of images does not care whether the source was de-duplicated first
            if src[0] == "comp" and (src[1] in ("list", "gen") or (kind == "set" and src[1] == "set")) and not (isinstance(src[2], tuple) and src[2] and src[2][0] == "%payload"):
                # (f(m) for m in [g(d) for d in D] if c(m))  =  (f(g(d)) for d in D if c(g(d)))
                m = {pat: src[2]}
                inner = list(src[3])
                if conds:
                    lp, li, lc = inner[-1]
                    inner[-1] = (lp, li, tuple(lc) + tuple(subst(c, m) for c in conds))
                return ("comp", kind, subst(elt, m), tuple(inner))
        return ("comp", kind, elt, tuple(gens))

    # -------------------------------------------------------------- calls
    def eval_call(self, e: ast.Call, state: State, func: Func, stmt_ctx: bool):
        line = e.lineno
        outs = []
        for s0, f in self.eval(e.func, state, func):
            argexprs = list(e.args)
            kwexprs = [k for k in e.keywords]
            for s1, vals in self._evals(argexprs + [k.value for k in kwexprs], s0, func):
                n = len(argexprs)
                # _evals flattens starred literals, so recompute split conservatively
                nkw = len(kwexprs)
                args = vals[: len(vals) - nkw]
                kwvals = vals[len(vals) - nkw:]
                kwargs = {}
                bad = False
                for k, v in zip(kwexprs, kwvals):
                    if k.arg is None:
                        if v[0] == "dictlit" and all(kk[0] == "const" for kk, _ in v[1]):
                            for kk, vv in v[1]:
                                kwargs[kk[1]] = vv
                        elif v == NONE or (v[0] == "orelse"):
                            kwargs["**"] = v
                        else:
                            kwargs["**"] = v
                    else:
                        kwargs[k.arg] = v
                if any(a[0] == "bottom" for a in args + list(kwargs.values())):
                    b = next(a for a in args + list(kwargs.values()) if a[0] == "bottom")
                    outs.append((s1, b))
                    continue
                outs.extend(self.apply(f, args, kwargs, s1, func, line, e, stmt_ctx))
        return outs

    def apply(self, f: Term, args: list[Term], kwargs: dict[str, Term], state: State, func: Func, line: int,
              e: ast.Call | None = None, stmt_ctx: bool = False):
        h = f[0]
        if h == "bottom":
            return [(state, f)]
        if h == "builtin":
            self.calls_resolved += 1
            return self.apply_builtin(f[1], args, kwargs, state, func, line)
        if h == "ref":
            r = self.model.resolve_qualified(f[1])
            if isinstance(r, Func):
                self.calls_resolved += 1
                if r.qname in self.primitives:
                    t = self.prim_call(r, args, kwargs)
                    prm = self._inplace_param(r)
                    if prm is not None and e is not None:
                        n = self._actual_names(r, e, False).get(prm)
                        kw = dict(t[3]) if not t[2] else {}
                        if n is not None and n in state.env and state.env[n] == kw.get(prm):
                            # the primitive modifies this argument in place and returns it: the caller's variable now names that result
                            s2 = state.fork()
                            k = self.__dict__.get("_inplace_comp", {}).get(r.qname)
                            s2.env[n] = t if k is None else ("index", t, const(k))
                            return [(s2, t)]
                    return [(state, t)]
                return self.inline(r, args, kwargs, state, func, line, call_ast=e)
            if isinstance(r, Cls):
                self.calls_resolved += 1
                return self.construct(r, args, kwargs, state, func, line)
        if h == "boundref":
            r = self.model.functions.get(f[1])
            if r is not None:
                self.calls_resolved += 1
                if r.qname in self.primitives or (r.cls is not None and r.cls.qname in self.opaque_classes):
                    return [(state, self.prim_call(r, args, kwargs, cls_term=f[2]))]
                if r.is_classmethod:
                    return self.inline(r, args, kwargs, state, func, line, self_term=f[2], call_ast=e)
                if r.is_staticmethod:
                    return self.inline(r, args, kwargs, state, func, line)
                # Class.method(instance, ...)
                if args:
                    return self.inline(r, args[1:], kwargs, state, func, line, self_term=args[0])
        if h == "superbound":
            r = self.model.functions.get(f[1])
            if r is not None:
                self.calls_resolved += 1
                if r.qname in self.primitives:
                    return [(state, self.prim_meth(f[2], r, args, kwargs))]
                return self.inline(r, args, kwargs, state, func, line, self_term=f[2], call_ast=e)
        if h == "bound" and f[2] in ("__eq__", "__ne__") and len(args) == 1 and not kwargs:
            # x.__eq__(y) as a predicate (filter(one.__eq__, xs)): the comparison itself
            r_ = self.compare(ast.Eq() if f[2] == "__eq__" else ast.NotEq(), f[1], args[0])
            return [(state, r_)]
        if h == "bound":
            recv, name = f[1], f[2]
            c = self.cls_of(recv)
            m = c.find_method(name) if c is not None else None
            if m is not None:
                self.calls_resolved += 1
                if m.qname in self.primitives or name in self.prim_methods or c.qname in self.opaque_classes or self.is_virtual(recv, c, name):
                    t = self.prim_meth(recv, m, args, kwargs)
                    return self._maybe_effect(t, e, state, stmt_ctx, line)
                if m.is_classmethod:
                    return self.inline(m, args, kwargs, state, func, line, self_term=("ref", c.qname), call_ast=e)
                if m.is_staticmethod:
                    return self.inline(m, args, kwargs, state, func, line, call_ast=e)
                return self.inline(m, args, kwargs, state, func, line, self_term=recv, call_ast=e)
        if h == "attr":
            recv, name = f[1], f[2]
            self.calls_resolved += 1 if self.typeof(recv) is not None else 0
            if self.typeof(recv) is None:
                self.calls_unresolved += 1
            return self.apply_method_generic(recv, name, args, kwargs, state, func, line, e, stmt_ctx)
        if h == "external":
            self.calls_resolved += 1
            return self.apply_external(f[1], args, kwargs, state, func, line)
        if h == "global":
            c = self.cls_of(f)
            if c is not None:
                m = c.find_method("__call__")
                if m is not None:
                    self.calls_resolved += 1
                    if m.qname in self.primitives or c.qname in self.opaque_classes or f[1] in self.primitives:
                        return [(state, ("call", f[1], tuple(args), tuple(sorted(kwargs.items()))))]
                    return self.inline(m, args, kwargs, state, func, line, self_term=f)
            return [(state, ("call", f[1], tuple(args), tuple(sorted(kwargs.items()))))]
        if h == "lam" and not kwargs and len(args) == len(f[1]) and not any(a[0] == "star" for a in args):
            self.calls_resolved += 1
            return [(state, subst(f[2], dict(zip(f[1], args))))]
        if h == "localdef":
            node, owner = self._localdefs[f[2]]
            lf = Func(f"{owner.qname}.<locals>.{node.name}", owner.module, node, None, ())
            return self.inline(lf, args, kwargs, state, func, line, closure=state.env)
        if h == "call" and isinstance(f[1], str) and f[1] == "functools.partial":
            inner = f[2][0]
            pre_args = list(f[2][1:])
            pre_kwargs = dict(f[3])
            pre_kwargs.update(kwargs)
            return self.apply(inner, pre_args + args, pre_kwargs, state, func, line, e, stmt_ctx)
        if h == "ite":
            # (f if c else g)(args): the call distributes over the choice of callee
            out = []
            for br, cnd in ((f[2], f[1]), (f[3], self.negate(f[1]))):
                s_b = state.assume(cnd)
                if self.infeasible(s_b.conds):
                    continue
                out.extend(self.apply(br, list(args), dict(kwargs), s_b, func, line, e, stmt_ctx))
            if out:
                return out
        if h in ("meth", "call", "index", "var", "unknown", "ite", "orelse"):
            self.calls_unresolved += 1
            return [(state, ("apply", f, tuple(args), tuple(sorted(kwargs.items()))))]
        self.calls_unresolved += 1
        return [(state, ("apply", f, tuple(args), tuple(sorted(kwargs.items()))))]

    def _maybe_effect(self, t: Term, e: ast.Call | None, state: State, stmt_ctx: bool, line: int):
        """A primitive method called as a statement on a local name is recorded as an effect on it."""
        if stmt_ctx and e is not None and isinstance(e.func, ast.Attribute) and t[0] == "meth":
            base = e.func.value
            if isinstance(base, ast.Name) and base.id in state.env and t[2] in MUTATORS:
                s2 = state.fork()
                s2.env[base.id] = self._add_effect(s2.env[base.id], ("call", t[2], t[3], t[4]))
                return [(s2, NONE)]
        return [(state, t)]

    def bind_args(self, f: Func, args: list[Term], kwargs: dict[str, Term], skip_self: bool) -> dict[str, Term] | None:
        a = f.node.args
        pos = [x.arg for x in a.posonlyargs + a.args]
        if skip_self and pos:
            pos = pos[1:]
        bound: dict[str, Term] = {}
        rest = []
        plain = [x for x in args]
        for i, v in enumerate(plain):
            if v[0] == "star":
                return None
            if i < len(pos):
                bound[pos[i]] = v
            else:
                rest.append(v)
        if rest:
            if a.vararg:
                bound[a.vararg.arg] = ("tuplelit", tuple(rest))
            else:
                return None
        extra = {}
        for k, v in kwargs.items():
            if k == "**":
                return None
            if k in pos or k in [x.arg for x in a.kwonlyargs]:
                bound[k] = v
            elif a.kwarg:
                extra[k] = v
            else:
                return None
        if a.kwarg:
            bound[a.kwarg.arg] = ("dictlit", tuple((const(k), v) for k, v in extra.items()))
        return bound

    def prim_call(self, r: Func, args, kwargs, cls_term=None) -> Term:
        skip = r.cls is not None and not r.is_staticmethod and r.is_classmethod
        b = self.bind_args(r, args, kwargs, skip_self=skip)
        if b is None:
            t = ("call", r.qname, tuple(args), tuple(sorted(kwargs.items())))
        else:
            b = self._fill_const_defaults(r, b, skip)
            b = self._normalise_precomputed(r, b)
            t = ("call", r.qname, (), tuple(sorted(b.items())))
        self.set_type(t, self.parse_ann(r.module, r.node.returns))
        return t

    def prim_meth(self, recv: Term, m: Func, args, kwargs) -> Term:
        b = self.bind_args(m, args, kwargs, skip_self=True)
        if b is None:
            t = ("meth", recv, m.name, tuple(args), tuple(sorted(kwargs.items())))
        else:
            b = self._fill_const_defaults(m, b, True)
            t = ("meth", recv, m.name, (), tuple(sorted(b.items())))
        self.set_type(t, self.parse_ann(m.module, m.node.returns))
        return t

    def _normalise_precomputed(self, f: Func, b: dict[str, Term]) -> dict[str, Term]:
        """An optional argument the callee would compute itself.  `def f(x, *, g=None): ...; if g is None: g = E(x); ...` lets a caller hand over
        E(x) computed once (hoisted out of a loop).  The call with g=None (given or defaulted) IS the call with g = E(x): the canonical form of a
        call of a primitive carries the value the callee's own straight-line prefix computes for `g is None` on the same arguments, so
        f(x), f(x, g=None) and f(x, g=E(x)) are one term; any other value is left as written."""
        a = f.node.args
        pos = a.posonlyargs + a.args
        defaults = [None] * (len(pos) - len(a.defaults)) + list(a.defaults)
        opt = {p.arg for p, d in list(zip(pos, defaults)) + list(zip(a.kwonlyargs, a.kw_defaults)) if isinstance(d, ast.Constant) and d.value is None}
        cand = [p for p in opt if b.get(p) == NONE]
        if not cand or getattr(self, "_in_precomputed", False):
            return b
        body = [st for st in f.node.body if not (isinstance(st, ast.Expr) and isinstance(st.value, ast.Constant))]
        for p in cand:
            idx = None
            for i, st in enumerate(body):
                if (isinstance(st, ast.If) and not st.orelse and isinstance(st.test, ast.Compare) and len(st.test.ops) == 1 and isinstance(st.test.ops[0], ast.Is)
                        and isinstance(st.test.left, ast.Name) and st.test.left.id == p and isinstance(st.test.comparators[0], ast.Constant)
                        and st.test.comparators[0].value is None and len(st.body) == 1 and isinstance(st.body[0], ast.Assign)
                        and len(st.body[0].targets) == 1 and isinstance(st.body[0].targets[0], ast.Name) and st.body[0].targets[0].id == p):
                    idx = i
                    break
                if not isinstance(st, (ast.Assign, ast.AnnAssign)):
                    break  # only a straight-line prefix of plain assignments is read
            if idx is None:
                continue
            key = (f.qname, p, tuple(sorted((k, v) for k, v in b.items() if k != p)))
            cache = self.__dict__.setdefault("_precomputed_cache", {})
            if key not in cache:
                env = dict(b)
                env[p] = NONE
                self._in_precomputed = True
                try:
                    outs = self.exec_block(body[:idx] + [body[idx].body[0]], State(env), f)
                except Exception:  # noqa: BLE001
                    outs = []
                finally:
                    self._in_precomputed = False
                val = None
                if len(outs) == 1 and outs[0][1] == "fall" and not outs[0][0].conds:
                    val = outs[0][0].env.get(p)
                    if val is not None and (has_unknown(val) or val == NONE):
                        val = None
                cache[key] = val
            if cache[key] is not None:
                b = dict(b)
                b[p] = cache[key]
        return b

    def _fill_const_defaults(self, f: Func, b: dict[str, Term], skip_self: bool) -> dict[str, Term]:
        a = f.node.args
        pos = a.posonlyargs + a.args
        defaults = [None] * (len(pos) - len(a.defaults)) + list(a.defaults)
        if skip_self and pos:
            pos, defaults = pos[1:], defaults[1:]
        for p, d in list(zip(pos, defaults)) + list(zip(a.kwonlyargs, a.kw_defaults)):
            if p.arg not in b and d is not None and isinstance(d, ast.Constant):
                b[p.arg] = const(d.value)
        return b

    def inline(self, f: Func, args, kwargs, state: State, func: Func, line: int, self_term: Term | None = None,
               closure: dict | None = None, call_ast: ast.Call | None = None):
        if (f.qname in self.stack or f.qname in self.recurse_as) and closure is None:
            t = ("recurse", f.qname, tuple(args), tuple(sorted(kwargs.items())))
            if t not in self.types:
                self.set_type(t, self.parse_ann(f.module, f.node.returns))  # what the routine declares to return (never None unless it says so)
            return [(state, t)]
        if len(self.stack) >= self.max_depth:
            self.unknowns.append((func.qname, line, f"depth:{f.qname}"))
            return [(state, unknown(f"inline-depth:{f.qname}", line))]
        needs_self = f.cls is not None and not f.is_staticmethod
        b = self.bind_args(f, args, kwargs, skip_self=needs_self)
        if b is None:
            self.unknowns.append((func.qname, line, f"bind:{f.qname}"))
            return [(state, unknown(f"cannot-bind:{f.qname}", line))]
        if closure is not None:
            merged = {k: v for k, v in closure.items() if not k.startswith("__")}
            merged.update(b)
            b = merged
        if f.is_generator:
            paths = self.run(f, b, self_term if needs_self else None)
            outs = []
            for p in paths:
                s = State(dict(state.env), add_conds(state.conds, p.conds), state.notes + p.notes)
                if p.kind == "raise":
                    outs.append((s, ("bottom", p.value)))
                else:
                    outs.append((s, p.value))
            return outs
        ctx = self.__dict__.setdefault("_ctx_conds", [])
        ctx.append(state.conds)  # what the caller's path has established is still true inside the callee
        try:
            paths = self.run(f, b, self_term if needs_self else None)
        finally:
            ctx.pop()
        outs = []
        actual_names = self._actual_names(f, call_ast, needs_self) if call_ast is not None else {}
        for p in paths:
            s = State(dict(state.env), add_conds(state.conds, p.conds), state.notes + p.notes)
            if self.infeasible(s.conds):
                continue
            for param, final in p.writes:
                # the callee modified the OBJECT its parameter names: the caller's variable that was passed sees the same object
                n = actual_names.get(param)
                if n is not None and n in s.env and s.env[n] == b.get(param):
                    s.env[n] = final
            if p.kind == "raise":
                outs.append((s, ("bottom", p.value)))
            else:
                outs.append((s, p.value))
        if not outs:
            return [(state, unknown(f"no-feasible-path:{f.qname}", line))]
        return outs

    def _actual_names(self, f: Func, call: ast.Call, skip_self: bool) -> dict:
        """parameter -> the caller's plain variable passed for it (only arguments written as a bare name)."""
        a = f.node.args
        pos = [x.arg for x in a.posonlyargs + a.args]
        if skip_self and pos:
            pos = pos[1:]
        out = {}
        if any(isinstance(x, ast.Starred) for x in call.args):
            return out
        for prm, x in zip(pos, call.args):
            if isinstance(x, ast.Name):
                out[prm] = x.id
        for k in call.keywords:
            if k.arg is not None and isinstance(k.value, ast.Name):
                out[k.arg] = k.value.id
        return out

    def _inplace_param(self, r: Func) -> str | None:
        """The parameter that `r` modifies in place AND returns on every path (`def f(d, ...): d[k] = v; return d`), else None."""
        cache = self.__dict__.setdefault("_inplace_cache", {})
        if r.qname in cache:
            return cache[r.qname]
        res = None
        a = r.node.args
        params = {x.arg for x in a.posonlyargs + a.args + a.kwonlyargs}
        rets = [n for n in ast.walk(r.node) if isinstance(n, ast.Return)]
        comp_cache = self.__dict__.setdefault("_inplace_comp", {})
        comp_cache[r.qname] = None

        via_callee = [False]

        def ret_name(n):
            v = n.value
            if isinstance(v, ast.Name):
                return v.id, None
            if isinstance(v, ast.Tuple) and v.elts and isinstance(v.elts[0], ast.Name):
                return v.elts[0].id, 0  # `return graph, removed`: the modified argument comes back as the first component
            if isinstance(v, ast.Call) and isinstance(v.func, ast.Name):
                # `return helper(graph, ...)` where the helper modifies and returns that argument
                g = self.model.resolve_name(r.module, v.func.id)
                if isinstance(g, Func) and g.qname != r.qname and g.cls is None and len(self.stack) < self.max_depth:
                    cache[r.qname] = None  # guard against mutual recursion
                    gp = self._inplace_param(g)
                    if gp is not None:
                        nm = self._actual_names(g, v, False).get(gp)
                        if nm is not None:
                            via_callee[0] = True
                            return nm, self.__dict__.get("_inplace_comp", {}).get(g.qname)
            return None, None

        pairs = {ret_name(n) for n in rets}
        names = {p_[0] for p_ in pairs}
        if rets and len(pairs) == 1:
            comp_cache[r.qname] = next(iter(pairs))[1]
        if rets and len(pairs) == 1 and None not in names and next(iter(names)) in params \
                and not any(isinstance(n, (ast.FunctionDef, ast.Lambda)) and n is not r.node for n in ast.walk(r.node)):
            prm = next(iter(names))
            rebound = any(isinstance(n, ast.Name) and n.id == prm and isinstance(n.ctx, ast.Store) for n in ast.walk(r.node))
            mutated = False
            for n in ast.walk(r.node):
                if isinstance(n, ast.Subscript) and isinstance(n.ctx, (ast.Store, ast.Del)) and isinstance(n.value, ast.Name) and n.value.id == prm:
                    mutated = True
                if isinstance(n, ast.Call) and isinstance(n.func, ast.Attribute) and isinstance(n.func.value, ast.Name) and n.func.value.id == prm \
                        and n.func.attr in MUTATORS:
                    mutated = True
            if not mutated:
                # ... or hands it to a helper that modifies it (`_exogenize(graph, node, ...)` as a statement)
                for n in ast.walk(r.node):
                    if isinstance(n, ast.Call) and isinstance(n.func, ast.Name):
                        g = self.model.resolve_name(r.module, n.func.id)
                        if isinstance(g, Func) and g.qname != r.qname and g.cls is None:
                            for gp in self._mutated_params(g):
                                if self._actual_names(g, n, False).get(gp) == prm:
                                    mutated = True
            if (mutated or via_callee[0]) and not rebound:
                res = prm
        cache[r.qname] = res
        return res

    def _mutated_params(self, g: Func, depth: int = 0) -> set:
        """parameters of a module-level helper whose OBJECT the helper modifies (a mutator method, a subscript store, or a further helper)"""
        cache = self.__dict__.setdefault("_mutated_params_cache", {})
        if g.qname in cache:
            return cache[g.qname]
        cache[g.qname] = set()
        a = g.node.args
        params = {x.arg for x in a.posonlyargs + a.args + a.kwonlyargs}
        rebound = {n.id for n in ast.walk(g.node) if isinstance(n, ast.Name) and isinstance(n.ctx, ast.Store)}
        out = set()
        for n in ast.walk(g.node):
            if isinstance(n, ast.Subscript) and isinstance(n.ctx, (ast.Store, ast.Del)) and isinstance(n.value, ast.Name) and n.value.id in params:
                out.add(n.value.id)
            if isinstance(n, ast.Call) and isinstance(n.func, ast.Attribute) and isinstance(n.func.value, ast.Name) and n.func.value.id in params \
                    and n.func.attr in MUTATORS:
                out.add(n.func.value.id)
            if depth < 3 and isinstance(n, ast.Call) and isinstance(n.func, ast.Name):
                h = self.model.resolve_name(g.module, n.func.id)
                if isinstance(h, Func) and h.qname != g.qname and h.cls is None:
                    for hp in self._mutated_params(h, depth + 1):
                        nm = self._actual_names(h, n, False).get(hp)
                        if nm in params:
                            out.add(nm)
        out -= rebound
        cache[g.qname] = out
        return out

    def _modified_in_place(self, final: Term, initial: Term, depth: int = 0) -> bool:
        """Does `final` denote the object `initial` after in-place modification (as opposed to another object bound to the same name)?"""
        if final == initial:
            return True
        if depth > 30 or not isinstance(final, tuple) or not final:
            return False
        h = final[0]
        if h == "mut":
            return self._modified_in_place(final[1], initial, depth + 1)
        if h == "ite":
            return self._modified_in_place(final[2], initial, depth + 1) and self._modified_in_place(final[3], initial, depth + 1)
        if h == "after-iteration":
            return self._modified_in_place(final[1], initial, depth + 1)
        if h == "accum" and len(final) > 2 and final[1] == "effect":
            # a loop that calls a modifying method of the object once per element: still that object
            return self._modified_in_place(final[2], initial, depth + 1)
        if h == "index" and final[2] == const(0) and final[1][0] == "call":
            r0 = self.model.functions.get(final[1][1]) if isinstance(final[1][1], str) else None
            if r0 is not None and self._inplace_param(r0) is not None and self.__dict__.get("_inplace_comp", {}).get(r0.qname) == 0:
                kw0 = dict(final[1][3])
                prm0 = self._inplace_param(r0)
                if prm0 in kw0:
                    return self._modified_in_place(kw0[prm0], initial, depth + 1)
        if h == "call" and isinstance(final[1], str) and not final[2]:
            r = self.model.functions.get(final[1])
            if r is not None and self.__dict__.get("_inplace_comp", {}).get(final[1]) is None:
                prm = self._inplace_param(r)
                if prm is not None:
                    kw = dict(final[3])
                    if prm in kw:
                        return self._modified_in_place(kw[prm], initial, depth + 1)
        return False

    def run(self, func: Func, args: dict[str, Term], self_term: Term | None = None) -> list[Path]:
        if self_term is not None:
            self.exact_terms.add(self_term)
        return self._run(func, args, self_term)

    def is_virtual(self, recv: Term, c: Cls, name: str) -> bool:
        """A method call on a receiver whose dynamic class may be a subclass that overrides the method."""
        if recv in self.exact_terms or recv[0] in ("rec", "new"):
            return False
        base = c.find_method(name)
        for sc in c.all_subclasses():
            m = sc.find_method(name)
            if m is not None and m is not base:
                return True
        if base is not None and any(getattr(d, "id", getattr(d, "attr", "")) == "abstractmethod" for d in base.node.decorator_list):
            return True
        return False

    def infeasible(self, conds: tuple) -> bool:
        pos = set()
        neg = set()
        for c in conds:
            if c == FALSE:
                return True
            c = alpha_normalise_bound(_emptiness_form(c))
            if c[0] == "not":
                neg.add(c[1])
            else:
                pos.add(c)
            if c[0] == "ne":
                neg.add(("eq", c[1], c[2]))
            if c[0] == "eq":
                neg.add(("ne", c[1], c[2]))
        if pos & neg:
            return True
        # `x is not None` together with `not isinstance(x, T)` where x: Optional[T'] and T' is a T
        notnone = {c[1][1] for c in conds if c[0] == "not" and c[1][0] == "isnone"}
        for c in conds:
            if c[0] == "not" and c[1][0] == "isinstance" and c[1][1] in notnone and isinstance(c[1][2], tuple):
                typ = self.typeof(c[1][1])
                if isinstance(typ, tuple) and typ and typ[0] == "union":
                    rest = tuple(p for p in typ[1] if p != "none")
                    if rest and all(self._isinstance_by_type(p, list(c[1][2])) is True for p in rest):
                        return True
        return False

    # -------------------------------------------------------------- constructors
    def construct(self, c: Cls, args, kwargs, state: State, func: Func, line: int):
        if c.qname in self.primitives or c.qname in self.opaque_classes:
            init = c.find_method("__init__")
            if init is not None:
                b = self.bind_args(init, args, kwargs, skip_self=True)
                if b is not None:
                    b = self._fill_const_defaults(init, b, True)
                    t = ("new", c.qname, (), tuple(sorted(b.items())))
                    self.set_type(t, ("cls", c.qname))
                    return [(state, t)]
            elif c.is_dataclass or any(k.is_dataclass for k in c.mro()):
                names = list(c.all_fields())
                b = {}
                for i, v in enumerate(args):
                    if i < len(names):
                        b[names[i]] = v
                b.update(kwargs)
                t = ("new", c.qname, (), tuple(sorted(b.items())))
                self.set_type(t, ("cls", c.qname))
                return [(state, t)]
            t = ("new", c.qname, tuple(args), tuple(sorted(kwargs.items())))
            self.set_type(t, ("cls", c.qname))
            return [(state, t)]
        init = c.find_method("__init__")
        if init is not None:
            obj = ("rec", c.qname, ())
            b = self.bind_args(init, args, kwargs, skip_self=True)
            if b is None:
                return [(state, unknown(f"cannot-bind:{c.qname}.__init__", line))]
            if len(self.stack) >= self.max_depth:
                return [(state, unknown(f"inline-depth:{c.qname}", line))]
            selfname = init.params[0]
            paths = self._run(init, b, obj, want_env=selfname)
            outs = []
            for p in paths:
                s = State(dict(state.env), add_conds(state.conds, p.conds), state.notes + p.notes)
                if self.infeasible(s.conds):
                    continue
                if p.kind == "raise":
                    outs.append((s, ("bottom", p.value)))
                else:
                    outs.append((s, p.value))
            return outs
        if c.is_dataclass or any(k.is_dataclass for k in c.mro()):
            names = list(c.all_fields())
            defaults = c.all_field_defaults()
            b: dict[str, Term] = {}
            for i, v in enumerate(args):
                if i >= len(names):
                    return [(state, unknown(f"too-many-args:{c.qname}", line))]
                b[names[i]] = v
            for k, v in kwargs.items():
                b[k] = v
            for nme in names:
                if nme not in b:
                    d = defaults.get(nme)
                    if d is None:
                        b[nme] = unknown(f"missing-field:{nme}", line)
                    elif isinstance(d, ast.Constant):
                        b[nme] = const(d.value)
                    elif isinstance(d, ast.Call) and getattr(d.func, "id", "") == "field":
                        val = unknown("field-default", line)
                        for kw in d.keywords:
                            if kw.arg == "default_factory":
                                fac = unparse(kw.value)
                                val = {"tuple": ("tuplelit", ()), "frozenset": EMPTY, "set": EMPTY, "list": ("listlit", ()),
                                       "dict": ("dictlit", ())}.get(fac, ("call", fac, (), ()))
                            if kw.arg == "default" and isinstance(kw.value, ast.Constant):
                                val = const(kw.value.value)
                        b[nme] = val
                    else:
                        b[nme] = unknown("field-default", line)
            rec = ("rec", c.qname, tuple((n, b[n]) for n in names))
            post = c.find_method("__post_init__")
            if post is None or len(self.stack) >= self.max_depth:
                return [(state, rec)]
            paths = self._run(post, {}, rec)
            outs = []
            for p in paths:
                s = State(dict(state.env), add_conds(state.conds, p.conds), state.notes + p.notes)
                if self.infeasible(s.conds):
                    continue
                if p.kind == "raise":
                    outs.append((s, ("bottom", p.value)))
                else:
                    outs.append((s, rec))
            return outs or [(state, rec)]
        # plain class without __init__ (exceptions etc.)
        t = ("new", c.qname, tuple(args), tuple(sorted(kwargs.items())))
        self.set_type(t, ("cls", c.qname))
        return [(state, t)]

    # -------------------------------------------------------------- builtins / externals / generic methods
    def apply_builtin(self, name: str, args, kwargs, state: State, func: Func, line: int):
        if name in ("set", "frozenset"):
            if not args:
                return [(state, EMPTY)]
            a = args[0]
            if name == "set" and a[0] in ("listlit", "tuplelit"):
                return [(state, ("setlit", a[1]))]
            if name == "set" and a[0] == "comp" and a[1] in ("gen", "list"):
                return [(state, ("comp", "set", a[2], a[3]))]
            if name == "frozenset":
                if a[0] == "setof":
                    return [(state, ("setof", a[1], "frozen"))]
                return [(state, ("setof", a, "frozen"))]
            if a[0] in ("setof", "union", "inter", "diff", "setlit", "empty") or (a[0] == "comp" and a[1] == "set"):
                return [(state, a if a[0] != "setof" else ("setof", a[1]))]
            return [(state, ("setof", a))]
        if name in ("list", "tuple", "sorted", "iter", "reversed"):
            if not args:
                return [(state, ("listlit" if name != "tuple" else "tuplelit", ()))]
            a = args[0]
            if name in ("list", "tuple", "sorted") and (a == EMPTY or (a[0] in ("listlit", "tuplelit", "setlit") and not a[1]) or (a[0] == "setof" and len(a) == 2 and (
                    a[1] == EMPTY or (a[1][0] in ("listlit", "tuplelit", "setlit") and not a[1][1])))):
                return [(state, ("tuplelit" if name == "tuple" else "listlit", ()))]  # nothing to list / sort
            if name in ("list", "tuple") and a[0] in ("listlit", "tuplelit"):
                return [(state, ("listlit" if name == "list" else "tuplelit", a[1]))]
            a0 = a
            if name in ("list", "tuple") and not kwargs and a0[0] == "comp" and a0[1] in ("list", "gen") and len(a0[3]) == 1 and not a0[3][0][2] and a0[3][0][0][0] == "tuplelit" \
                    and len(a0[3][0][0][1]) == 2 and a0[2] == a0[3][0][0][1][0]:
                src = a0[3][0][1]
                if src[0] == "call" and isinstance(src[1], str) and src[1].split(".")[-1] == "groupby" and len(src[2]) == 1 and not src[3]:
                    inner = src[2][0]
                    was_sorted = inner[0] == "call" and inner[1] == "sorted" and len(inner[2]) == 1 and not inner[3]
                    lit = self._literal_items(inner[2][0] if was_sorted else inner)
                    if lit is not None and len(lit) <= 6 and was_sorted:
                        # [k for k, _ in groupby(sorted(L))]: one representative per run of equal elements; after sorting, equal elements are
                        # adjacent -- decided only when every pair of elements is known to be equal (the same term) or unequal (by class)
                        kept: list = []
                        ok_ = True
                        for x_ in lit:
                            same = False
                            for y_ in kept:
                                if x_ == y_:
                                    same = True
                                    break
                                if self._eq_by_class(x_, y_) != FALSE:
                                    ok_ = False
                            if not ok_:
                                break
                            if not same:
                                kept.append(x_)
                        if ok_:
                            return [(state, ("call", name, (("call", "sorted", (("listlit", tuple(kept)),), ()),), ()))]
            if name == "sorted" and a[0] in ("listlit", "tuplelit") and len(a[1]) == 2 and all(x[0] != "star" for x in a[1]) and set(kwargs) == {"key"}:
                # sorted([x, y], key=k): y comes first exactly when k(y) < k(x) (the sort is stable)
                x0, x1 = a[1]
                k = kwargs.get("key")
                if k is None or k == NONE:
                    k0, k1 = x0, x1
                else:
                    r0, r1 = self.apply(k, [x0], {}, state, func, line), self.apply(k, [x1], {}, state, func, line)
                    k0 = r0[0][1] if len(r0) == 1 else None
                    k1 = r1[0][1] if len(r1) == 1 else None
                if k0 is not None and k1 is not None and k0[0] != "apply" and k1[0] != "apply":
                    c = ("lt", k1, k0)
                    return [(state, ("listlit", (("ite", c, x1, x0), ("ite", c, x0, x1))))]
            return [(state, ("call", name, tuple(args), tuple(sorted(kwargs.items()))))]
        if name == "isinstance" and len(args) == 2:
            return [(state, self.isinstance_term(args[0], args[1], conds=tuple(state.conds) + tuple(c_ for cs_ in self.__dict__.get('_ctx_conds', ()) for c_ in cs_)))]
        if name in ("any", "all") and len(args) == 1:
            items = self._literal_items(args[0])
            if items is not None:
                cs = [self.as_cond(x) for x in items]
                return [(state, self.mk_bool("or" if name == "any" else "and", cs) if cs else (FALSE if name == "any" else TRUE))]
            a0 = args[0]
            if a0[0] == "comp" and a0[1] in ("list", "gen", "set") and not (isinstance(a0[2], tuple) and a0[2] and a0[2][0] == "%payload"):
                # any()/all() judge the elements by truthiness
                a0 = ("comp", a0[1], self.as_cond(a0[2]), a0[3])
            return [(state, (name, a0))]
        if name.split(".")[-1] == "filterfalse" and len(args) == 2 and not kwargs:
            # filterfalse(p, xs) keeps what filter(p, xs) drops; over elements that are all known, decided element by element
            fn, xs = args
            items = self._literal_items(xs)
            if items is not None and len(items) <= 6 and fn != NONE:
                kept, okf = [], True
                for x_ in items:
                    r_ = self.apply(fn, [x_], {}, state, func, line)
                    c_ = self.as_cond(r_[0][1]) if len(r_) == 1 and r_[0][1][0] != "apply" else None
                    if c_ == FALSE:
                        kept.append(x_)
                    elif c_ != TRUE:
                        okf = False
                        break
                if okf:
                    return [(state, ("listlit", tuple(kept)))]
            v = self.fresh("m_")
            et = self.elem_type(xs)
            if et is not None:
                self.set_type(v, et)
            res = self.apply(fn, [v], {}, state, func, line) if fn != NONE else [(state, v)]
            if len(res) == 1 and res[0][1][0] != "apply":
                return [(state, ("comp", "gen", v, ((v, xs, (self.negate(self.as_cond(res[0][1])),)),)))]
        if name in ("map", "filter") and len(args) == 2 and not kwargs:
            fn, xs = args
            items = self._literal_items(xs)
            if name == "filter" and items is not None and len(items) <= 6 and fn != NONE:
                kept, okf = [], True
                for x_ in items:
                    r_ = self.apply(fn, [x_], {}, state, func, line)
                    c_ = self.as_cond(r_[0][1]) if len(r_) == 1 and r_[0][1][0] != "apply" else None
                    if c_ == TRUE:
                        kept.append(x_)
                    elif c_ != FALSE:
                        okf = False
                        break
                if okf:
                    return [(state, ("listlit", tuple(kept)))]
            if name == "map" and items is not None and len(items) <= 6 and fn != NONE:
                # map(f, (a, b)) over elements that are all known: (f(a), f(b))
                outs_ = [(state, [])]
                okm = True
                for x_ in items:
                    nxt_ = []
                    for st_, acc_ in outs_:
                        r_ = self.apply(fn, [x_], {}, st_, func, line)
                        if any(v_[0] == "apply" for _s, v_ in r_):
                            okm = False
                            break
                        nxt_.extend((s2_, acc_ + [v_]) for s2_, v_ in r_)
                    if not okm:
                        break
                    outs_ = nxt_
                if okm:
                    res_ = []
                    for st_, acc_ in outs_:
                        bot_ = next((v_ for v_ in acc_ if v_[0] == "bottom"), None)
                        res_.append((st_, bot_ if bot_ is not None else ("listlit", tuple(acc_))))
                    return res_
            v = self.fresh("m_")
            et = self.elem_type(xs)
            if self._yields_pairs(xs) or (xs[0] == "comp" and xs[1] in ("list", "gen") and is_term(xs[2]) and xs[2][0] == "tuplelit" and len(xs[2][1]) == 2):
                v = ("tuplelit", (self.fresh("m0_"), self.fresh("m1_")))
                self._type_bound(v, xs)
            elif et is not None:
                self.set_type(v, et)
            if name == "map" and xs[0] == "comp" and xs[1] in ("list", "gen"):
                # map(f, [g(d) for d in D]) = (f(g(d)) for d in D)
                res = self.apply(fn, [xs[2]], {}, state, func, line)
                if len(res) == 1 and res[0][1][0] != "apply":
                    return [(state, ("comp", "gen", res[0][1], xs[3]))]
            res = self.apply(fn, [v], {}, state, func, line) if fn != NONE else [(state, v)]
            if len(res) > 1 and all(st_ is not None for st_, _ in res):
                res = [(state, self._fold(res, state))]
            if len(res) == 1 and res[0][1][0] != "apply":
                body = res[0][1]
                if name == "map":
                    return [(state, ("comp", "gen", body, ((v, xs, ()),)))]
                return [(state, ("comp", "gen", v, ((v, xs, (self.as_cond(body),)),)))]
        if name in ("tuple", "list") and len(args) == 1 and not kwargs:
            items = self._literal_items(args[0])
            if items is not None:
                return [(state, ("tuplelit" if name == "tuple" else "listlit", tuple(items)))]
        if name == "next" and len(args) == 2 and not kwargs and args[0][0] in ("listlit", "tuplelit") and not any(x[0] == "star" for x in args[0][1]):
            # next() of a generator whose elements are all known: its first element, or the default
            return [(state, args[0][1][0] if args[0][1] else args[1])]
        if name == "len" and len(args) == 1:
            a = args[0]
            a0 = a
            while a0[0] == "call" and a0[1] in ("sorted", "tuple", "list", "reversed") and len(a0[2]) == 1:
                a0 = a0[2][0]  # same length
            if a0[0] in ("listlit", "tuplelit") and not any(x[0] == "star" for x in a0[1]):
                return [(state, const(len(a0[1])))]
            if a[0] in ("listlit", "tuplelit") and not any(x[0] == "star" for x in a[1]):
                return [(state, const(len(a[1])))]
            return [(state, ("len", a))]
        if name == "bool" and len(args) == 1:
            return [(state, self.as_cond(args[0]))]
        if name == "dict" and not args and not kwargs:
            return [(state, ("dictlit", ()))]
        if name == "super":
            slf = state.env.get(func.params[0]) if func.params else None
            return [(state, ("super", func.cls.qname if func.cls else "?", slf if slf else NONE))]
        if name in ("ValueError", "TypeError", "KeyError", "RuntimeError", "NotImplementedError", "ZeroDivisionError",
                    "Exception", "StopIteration", "IndexError", "AttributeError", "NameError", "ImportError"):
            return [(state, ("new", name, (), ()))]
        if name == "print":
            return [(state, NONE)]
        return [(state, ("call", name, tuple(args), tuple(sorted(kwargs.items()))))]

    def isinstance_term(self, x: Term, spec: Term, conds: tuple = ()) -> Term:
        names = self._class_names(spec)
        if names is None:
            return ("isinstance", x, spec)
        if x[0] == "peel" and set(names) <= set(x[2]):
            return FALSE  # what is left after `while isinstance(x, C): x = x.attr` is not a C
        typ = self.typeof(x)
        if isinstance(typ, tuple) and typ and typ[0] == "union" and "none" in typ[1] and any(c == ("not", ("isnone", x)) for c in conds):
            # the path has tested `x is not None`: None is no longer one of the alternatives
            rest_ = tuple(p for p in typ[1] if p != "none")
            typ = rest_[0] if len(rest_) == 1 else ("union", rest_)
        verdict = self._isinstance_by_type(typ, names)
        if x in self.declared and not (x[0] == "call" and x[1] == "next"):  # (an element drawn from a typed collection is typed by the collection)
            verdict = None
        if verdict is True:
            return TRUE
        if verdict is False:
            return FALSE
        return ("isinstance", x, tuple(sorted(names)))

    def _class_names(self, spec: Term) -> list[str] | None:
        if spec[0] in ("ref", "builtin", "external"):
            return [spec[1]]
        if spec[0] == "tuplelit":
            out = []
            for s in spec[1]:
                n = self._class_names(s)
                if n is None:
                    return None
                out.extend(n)
            return out
        if spec[0] == "op" and spec[1] == "|":
            a, b = self._class_names(spec[2]), self._class_names(spec[3])
            if a is None or b is None:
                return None
            return a + b
        if spec[0] in ("union",):
            out = []
            for s in spec[1:]:
                n = self._class_names(s)
                if n is None:
                    return None
                out.extend(n)
            return out
        return None

    def _isinstance_by_type(self, typ: Any, names: list[str]) -> bool | None:
        if typ is None:
            return None
        if isinstance(typ, tuple) and typ[0] == "union":
            vs = [self._isinstance_by_type(p, names) for p in typ[1]]
            if all(v is True for v in vs):
                return True
            if all(v is False for v in vs):
                return False
            return None
        short = [n.split(".")[-1] for n in names]
        if isinstance(typ, tuple) and typ[0] == "cls":
            c = self.model.classes.get(typ[1])
            if c is None:
                return None
            if any(c.is_subclass_of(n) or c.name == n.split(".")[-1] for n in names):
                return True
            # could be a subclass instance at run time
            subs = c.all_subclasses()
            if any(sc.is_subclass_of(n) for sc in subs for n in names):
                return None
            if any(n in ("str", "int", "list", "tuple", "set", "frozenset", "dict") for n in short):
                return False if all(n in ("str", "int", "list", "tuple", "set", "frozenset", "dict", "bool", "float") or n in self.model.classes_by_name for n in short) else None
            return False
        if isinstance(typ, tuple) and typ[0] in ("set", "frozenset", "list", "tuple", "dict", "iter"):
            m = {"set": {"set", "Set"}, "frozenset": {"frozenset"}, "list": {"list"}, "tuple": {"tuple"}, "dict": {"dict"}, "iter": set()}[typ[0]]
            if typ[0] == "iter":
                # an Iterable annotation is not a str / Variable instance by the annotation's contract
                if all(n in self.model.classes_by_name or n == "str" for n in short):
                    return False
                return None
            if any(n in m for n in short):
                return True
            if typ[0] == "set" and "frozenset" in short:
                return None  # a value abstracted as "a set" may be a frozenset
            return False
        if typ in ("str", "int", "bool", "float", "none"):
            if typ in short or (typ == "bool" and "int" in short):
                return True
            return False
        return None

    def apply_external(self, q: str, args, kwargs, state: State, func: Func, line: int):
        tail = q.split(".")[-1]
        if q.endswith("typing.cast") or tail == "cast":
            if len(args) == 2:
                return [(state, args[1])]
        if tail == "deepcopy" and len(args) == 1:
            return [(state, ("copyof", args[0]))]
        if tail == "filterfalse" and len(args) == 2 and not kwargs:
            r_ = self.apply_builtin("filterfalse", args, kwargs, state, func, line)
            if not (len(r_) == 1 and r_[0][1][0] == "call" and r_[0][1][1] == "filterfalse"):
                return r_
        if tail == "combinations" and len(args) == 2 and not kwargs and args[1][0] == "const" and isinstance(args[1][1], int) and not isinstance(args[1][1], bool):
            items = self._literal_items(args[0])
            if items is not None and len(items) <= 5 and 0 <= args[1][1] <= 5:
                import itertools as _it
                return [(state, ("listlit", tuple(("tuplelit", tuple(c_)) for c_ in _it.combinations(items, args[1][1]))))]
        if tail == "from_iterable" and len(args) == 1 and not kwargs:
            outer = self._literal_items(args[0])
            if outer is not None and all(self._literal_items(x_) is not None for x_ in outer):
                flat_ = []
                for x_ in outer:
                    flat_.extend(self._literal_items(x_))
                return [(state, ("listlit", tuple(flat_)))]
        if tail == "chain" and args and not kwargs and all(self._literal_items(x_) is not None for x_ in args):
            flat_ = []
            for x_ in args:
                flat_.extend(self._literal_items(x_))
            return [(state, ("listlit", tuple(flat_)))]
        if tail == "takewhile" and len(args) == 2:
            # the prefix of the sequence before the first element that fails the predicate = a loop that appends while the predicate
            # holds and breaks at the first failure
            pred, seq = args
            v = self.fresh("w_")
            et = self.elem_type(seq)
            if et is not None:
                self.set_type(v, et)
            res = self.apply(pred, [v], {}, state, func, line)
            if len(res) == 1 and res[0][1][0] != "apply":
                c = self.as_cond(res[0][1])
                return [(state, ("accum", "concat", ("listlit", ()), ("listlit", (v,)), ((v, seq, (c,)),), const(True)))]
        return [(state, ("call", q, tuple(args), tuple(sorted(kwargs.items()))))]

    def apply_method_generic(self, recv: Term, name: str, args, kwargs, state: State, func: Func, line: int,
                             e: ast.Call | None, stmt_ctx: bool):
        # module-qualified externals: nx.ancestors(...)
        if recv[0] in ("external", "module"):
            return self.apply_external(f"{recv[1]}.{name}", args, kwargs, state, func, line)
        if name in SET_METHODS and not kwargs:
            h = SET_METHODS[name]
            res = recv
            if not args and name == "union":
                return [(state, ("setof", recv))]
            for a in args:
                if a[0] == "star":
                    res = (h, res, ("bigunion", a[1])) if h != "inter" else (h, res, ("biginter", a[1]))
                else:
                    res = self.mk_set(h, res, a)
            return [(state, res)]
        if name == "__contains__" and len(args) == 1 and not kwargs:
            return [(state, self.compare(ast.In(), args[0], recv))]  # S.__contains__(x) is x in S
        if name in SET_PRED_METHODS and len(args) == 1:
            a = args[0]
            if a[0] in ("tuplelit", "listlit", "setlit") and name in ("issuperset", "isdisjoint") and not any(x[0] == "star" for x in a[1]):
                # S.issuperset((u, v))  is  u in S and v in S;  S.isdisjoint((u, v))  is  u not in S and v not in S
                cs = [self.compare(ast.In(), x, recv) for x in a[1]]
                if name == "isdisjoint":
                    cs = [self.negate(c) for c in cs]
                return [(state, self.mk_bool("and", cs) if cs else TRUE)]
            if name == "issubset":
                return [(state, ("subset", recv, a))]
            if name == "issuperset":
                return [(state, ("subset", a, recv))]
            return [(state, ("disjoint", recv, a))]
        if name == "copy" and not args:
            return [(state, ("copyof", recv))]
        if name == "get" and len(args) in (1, 2) and not kwargs and (self._is_dictlike(recv) or (recv[0] == "call" and recv[1] in ("dict", "defaultdict"))):
            # d.get(k, default) = d[k] if k in d else default
            return [(state, ("ite", ("in", args[0], recv), ("index", recv, args[0]), args[1] if len(args) == 2 else NONE))]
        if name == "get_base" and not args and self.typeof(recv) is None:
            return [(state, ("meth", recv, name, (), ()))]
        # statement-level mutation of a local value: record as effect on the variable
        if stmt_ctx and name in MUTATORS and e is not None:
            base = e.func.value if isinstance(e.func, ast.Attribute) else None
            if isinstance(base, ast.Name) and base.id in state.env:
                s2 = state.fork()
                s2.env[base.id] = self._effect_on(s2.env[base.id], name, args, kwargs)
                return [(s2, NONE)]
            if base is not None:
                s2 = state.fork()
                root = base
                while isinstance(root, (ast.Attribute, ast.Subscript, ast.Call)):
                    root = root.value if not isinstance(root, ast.Call) else root.func
                s2.notes = s2.notes + (("external-mutation", recv, name, tuple(args), tuple(sorted(kwargs.items())), line),)
                eff_name, eff_args = name, tuple(args)
                if name == "update" and len(args) == 1 and args[0][0] in ("setlit",) and len(args[0][1]) == 1 and args[0][1][0][0] != "star":
                    eff_name, eff_args = "add", (args[0][1][0],)  # s.update({x}) = s.add(x)
                if name == "update" and len(args) == 1 and not kwargs and args[0][0] == "comp" and args[0][1] in ("list", "gen") and is_term(args[0][2]) \
                        and args[0][2][0] == "tuplelit" and len(args[0][2][1]) == 2 and isinstance(base, ast.Attribute) and isinstance(base.value, ast.Name) \
                        and base.value.id in s2.env:
                    # q.table.update((k, v) for ... ) stores v under k once per element: the loop `for ...: q.table[k] = v`
                    k_, v_ = args[0][2][1]
                    s2.env[base.value.id] = ("accum", "effect", s2.env[base.value.id], ("setitem-attr", base.attr, k_, v_), tuple(args[0][3]), ("const", False))
                    return [(s2, NONE)]
                if isinstance(root, ast.Name) and root.id in s2.env:
                    s2.env[root.id] = self._add_effect(s2.env[root.id], ("deep", self._access_path(base, state, func), eff_name, eff_args))
                return [(s2, NONE)]
        # CHA fallback: unique repo method of that name
        cands = [m for m in self.model.methods_by_name.get(name, []) if not m.name.startswith("__")]
        if len(cands) == 1 and self.typeof(recv) is None and recv[0] in ("var", "attr", "index", "meth", "call"):
            m = cands[0]
            if m.qname in self.primitives or name in self.prim_methods or (m.cls and m.cls.qname in self.opaque_classes):
                return [(state, self.prim_meth(recv, m, args, kwargs))]
        return [(state, ("meth", recv, name, tuple(args), tuple(sorted(kwargs.items()))))]

    def _access_path(self, base: ast.expr, state: State, func: Func) -> tuple:
        """Access path from the root variable to the mutated component, without the root's (local) name:
        `q.target_interventions` -> (('attr','target_interventions'),);  `d[k]` -> (('item', <term of k>),)."""
        steps = []
        cur = base
        while isinstance(cur, (ast.Attribute, ast.Subscript, ast.Call)):
            if isinstance(cur, ast.Attribute):
                steps.append(("attr", cur.attr))
                cur = cur.value
            elif isinstance(cur, ast.Subscript):
                try:
                    k = self.eval1(cur.slice, state, func)
                except Exception:  # noqa: BLE001
                    k = unknown("subscript", getattr(cur, "lineno", 0))
                steps.append(("item", k))
                cur = cur.value
            else:
                steps.append(("call",))
                cur = cur.func
        return tuple(reversed(steps))

    def _is_dictlike(self, t: Term) -> bool:
        if t[0] == "dictlit" or (t[0] == "comp" and t[1] == "dict"):
            return True
        if t[0] == "op" and t[1] == "|":
            return self._is_dictlike(t[2]) or self._is_dictlike(t[3])
        if t[0] == "accum" and t[1] == "effect" and t[3][0] == "setitem":
            return True
        if t[0] == "mut" and t[2] and all(e[0] in ("setitem", "delitem") for e in t[2]):
            return True
        typ = self.typeof(t)
        return isinstance(typ, tuple) and typ[0] == "dict"

    def _effect_on(self, cur: Term, name: str, args, kwargs) -> Term:
        # functional reading of the common set/list mutators
        if name == "add" and len(args) == 1:
            return self.mk_set("union", cur if cur[0] != "empty" else EMPTY, ("setlit", (args[0],)))
        if name == "update" and len(args) == 1 and not kwargs and self._is_dictlike(cur):
            a = args[0]
            if a[0] == "comp" and a[1] in ("list", "gen", "set") and a[2][0] == "tuplelit" and len(a[2][1]) == 2:
                # d.update((k, v) for ...)  =  d | {k: v for ...}
                return ("op", "|", cur, ("comp", "dict", ("kv", a[2][1][0], a[2][1][1]), a[3]))
            if self._is_dictlike(a):
                return ("op", "|", cur, a)
        if name == "update" and len(args) >= 1 and not kwargs and (self.is_setlike(cur) or cur[0] in ("empty", "union", "setof", "setlit", "diff", "inter")):
            out = cur
            for a in args:  # s.update(a, b) = s |= a | b
                if a[0] == "comp" and a[1] in ("list", "gen"):
                    a = ("comp", "set", a[2], a[3])  # the elements, as a set
                out = self.mk_set("union", out, a if a[0] in ("union", "inter", "diff", "setof", "setlit", "comp") else ("setof", a))
            return out
        if name == "append" and len(args) == 1:
            return self._concat(cur, ("listlit", (args[0],)))
        if name == "extend" and len(args) == 1:
            return self._concat(cur, args[0])
        if name == "sort" and not args:
            k = kwargs.get("key")
            if cur[0] in ("listlit", "tuplelit") and len(cur[1]) == 2 and all(x[0] != "star" for x in cur[1]) and set(kwargs) == {"key"} \
                    and (k is not None and k != NONE and k[0] == "builtin"):
                x0, x1 = cur[1]
                k0, k1 = (x0, x1) if (k is None or k == NONE) else (("call", k[1], (x0,), ()), ("call", k[1], (x1,), ()))
                c = ("lt", k1, k0)
                return ("listlit", (("ite", c, x1, x0), ("ite", c, x0, x1)))
            return ("call", "sorted", (cur,), tuple(sorted(kwargs.items())))
        if name == "intersection_update" and len(args) == 1:
            return ("inter", cur, args[0])
        if name == "difference_update" and len(args) == 1:
            return ("diff", cur, args[0])
        if name in ("discard", "remove") and len(args) == 1 and not kwargs and (
                self.is_setlike(cur) or cur[0] in ("empty", "union", "setof", "setlit", "diff", "inter") or (cur[0] == "comp" and cur[1] == "set")
                or (cur[0] == "call" and cur[1] in ("set", "frozenset"))):
            # s.discard(x): the set without x  (s.remove(x) is the same set when it does not raise)
            return ("diff", cur, ("setlit", (args[0],)))
        return self._add_effect(cur, ("call", name, tuple(args), tuple(sorted(kwargs.items()))))

    # the real worker behind run(); separated so that __init__ inlining can ask for the final self
    def _run(self, func: Func, args: dict[str, Term], self_term: Term | None = None, want_env: str | None = None) -> list[Path]:
        env = dict(args)
        a = func.node.args
        pos = a.posonlyargs + a.args
        if self_term is not None and pos:
            env[pos[0].arg] = self_term
        defaults = [None] * (len(pos) - len(a.defaults)) + list(a.defaults)
        for p, d in list(zip(pos, defaults)) + list(zip(a.kwonlyargs, a.kw_defaults)):
            if p.arg not in env:
                if d is not None:
                    env[p.arg] = self._eval_simple_default(func.module, d)
                else:
                    env[p.arg] = var(p.arg)
            t = env[p.arg]
            if t[0] == "var" and t not in self.types:
                self.set_type(t, self.parse_ann(func.module, p.annotation))
        if a.vararg and a.vararg.arg not in env:
            env[a.vararg.arg] = ("tuplelit", ())
        if a.kwarg and a.kwarg.arg not in env:
            env[a.kwarg.arg] = ("dictlit", ())
        self.stack.append(func.qname)
        self.inlined.add(func.qname)
        if func.is_generator:
            env["%yield"] = ("listlit", ())
        try:
            state = State(env)
            entry = dict(env)
            outs = self.exec_block(_descent_as_loop(func), state, func)
            paths: list[Path] = []
            for st, status, val, line in outs:
                w = tuple((k, st.env[k]) for k, v0 in entry.items()
                          if k in st.env and st.env[k] is not v0 and st.env[k] != v0 and self._modified_in_place(st.env[k], v0))

                if func.is_generator and status in ("fall", "return"):
                    paths.append(Path(st.conds, "return", ("call", "iter", (st.env.get("%yield", ("listlit", ())),), ()), line, st.notes, w))
                elif status == "fall":
                    v = st.env.get(want_env, NONE) if want_env else NONE
                    paths.append(Path(st.conds, "return", v, line, st.notes, w))
                elif status == "return":
                    v = st.env.get(want_env, val) if want_env else val
                    paths.append(Path(st.conds, "return", v, line, st.notes, w))
                elif status == "raise":
                    paths.append(Path(st.conds, "raise", val, line, st.notes, w))
                else:
                    paths.append(Path(st.conds, "return", unknown(f"stray {status}", line), line, st.notes, w))
            return paths
        finally:
            self.stack.pop()


def _load(t: ast.expr) -> ast.expr:
    import copy

    n = copy.deepcopy(t)
    for x in ast.walk(n):
        if hasattr(x, "ctx"):
            x.ctx = ast.Load()
    return n


def _target_names(t: ast.expr) -> set[str]:
    return {n.id for n in ast.walk(t) if isinstance(n, ast.Name)}


def _mentions(t: Term, sub: Term) -> bool:
    from .terms import subterms

    return any(s == sub for s in subterms(t))


def _neg(c: Term) -> Term:
    if c[0] == "not":
        return c[1]
    if c[0] == "ne":
        return ("eq", c[1], c[2])
    if c[0] == "eq":
        return ("ne", c[1], c[2])
    return ("not", c)


def _pos_alts(c: Term, limit: int) -> list[list[Term]]:
    h = c[0]
    if h == "not":
        return _neg_alts(c[1], limit)
    if h == "and":
        out = [[]]
        for x in c[1:]:
            out = [a + b for a in out for b in _pos_alts(x, limit)]
            if len(out) > limit:
                return [[c]]
        return out
    if h == "or":
        first, rest = c[1], c[2:]
        out = list(_pos_alts(first, limit))
        if rest:
            tail = ("or",) + tuple(rest) if len(rest) > 1 else rest[0]
            out += [n + p for n in _neg_alts(first, limit) for p in _pos_alts(tail, limit)]
        return out if len(out) <= limit else [[c]]
    return [[c]]


def _neg_alts(c: Term, limit: int) -> list[list[Term]]:
    h = c[0]
    if h == "not":
        return _pos_alts(c[1], limit)
    if h == "or":
        out = [[]]
        for x in c[1:]:
            out = [a + b for a in out for b in _neg_alts(x, limit)]
            if len(out) > limit:
                return [[_neg(c)]]
        return out
    if h == "and":
        first, rest = c[1], c[2:]
        out = list(_neg_alts(first, limit))
        if rest:
            tail = ("and",) + tuple(rest) if len(rest) > 1 else rest[0]
            out += [p + n for p in _pos_alts(first, limit) for n in _neg_alts(tail, limit)]
        return out if len(out) <= limit else [[_neg(c)]]
    return [[_neg(c)]]


def _loop_over_keys(st: ast.For) -> ast.For | None:
    """`for v in d.values(): BODY` / `for k, v in d.items(): BODY`  ->  `for k in d: BODY[v := d[k]]`  (d a plain name, v never re-bound)."""
    import copy

    it = st.iter
    if not (isinstance(it, ast.Call) and not it.args and not it.keywords and isinstance(it.func, ast.Attribute) and isinstance(it.func.value, ast.Name)
            and it.func.attr in ("values", "items")):
        return None
    d = it.func.value.id
    if it.func.attr == "values" and isinstance(st.target, ast.Name):
        k, v = "__key_of_" + st.target.id, st.target.id
    elif it.func.attr == "items" and isinstance(st.target, ast.Tuple) and len(st.target.elts) == 2 and all(isinstance(x, ast.Name) for x in st.target.elts):
        k, v = st.target.elts[0].id, st.target.elts[1].id
    else:
        return None
    body = ast.Module(body=copy.deepcopy(st.body), type_ignores=[])
    for n in ast.walk(body):
        if isinstance(n, ast.Name) and n.id in (v, d) and isinstance(n.ctx, (ast.Store, ast.Del)):
            return None
        if isinstance(n, (ast.FunctionDef, ast.Lambda)):
            return None

    class R(ast.NodeTransformer):
        def visit_Name(self, n):
            if n.id == v and isinstance(n.ctx, ast.Load):
                return ast.copy_location(ast.Subscript(value=ast.Name(id=d, ctx=ast.Load()), slice=ast.Name(id=k, ctx=ast.Load()), ctx=ast.Load()), n)
            return n

    body = R().visit(body)
    new = ast.For(target=ast.Name(id=k, ctx=ast.Store()), iter=ast.Name(id=d, ctx=ast.Load()), body=body.body, orelse=[], type_comment=None)
    ast.copy_location(new, st)
    ast.fix_missing_locations(new)
    if st.orelse:
        return None
    return new


def _guard_is_vacuous(test: ast.expr, it: ast.expr) -> bool:
    """Is `test` false only when iterating `it` visits nothing?  (purely syntactic; the collection must be a plain name)"""
    def len_of(e):
        if isinstance(e, ast.Call) and isinstance(e.func, ast.Name) and e.func.id == "len" and len(e.args) == 1 and isinstance(e.args[0], ast.Name) and not e.keywords:
            return e.args[0].id
        return None

    def at_least(t):
        """(name, k) when t says len(name) >= k"""
        if isinstance(t, ast.Name):
            return t.id, 1
        if isinstance(t, ast.Compare) and len(t.ops) == 1:
            a, op, b = t.left, t.ops[0], t.comparators[0]
            if len_of(a) and isinstance(b, ast.Constant) and isinstance(b.value, int) and not isinstance(b.value, bool):
                if isinstance(op, ast.Gt):
                    return len_of(a), b.value + 1
                if isinstance(op, ast.GtE):
                    return len_of(a), b.value
                if isinstance(op, ast.NotEq) and b.value == 0:
                    return len_of(a), 1
            if len_of(b) and isinstance(a, ast.Constant) and isinstance(a.value, int) and not isinstance(a.value, bool):
                if isinstance(op, ast.Lt):
                    return len_of(b), a.value + 1
                if isinstance(op, ast.LtE):
                    return len_of(b), a.value
                if isinstance(op, ast.NotEq) and a.value == 0:
                    return len_of(b), 1
        return None

    al = at_least(test)
    if al is None:
        return False
    name, k = al
    if k <= 1 and isinstance(it, ast.Name) and it.id == name:
        return True
    if isinstance(it, ast.Call) and not it.keywords and len(it.args) == 2 and isinstance(it.args[0], ast.Name) and it.args[0].id == name:
        fn = it.func.attr if isinstance(it.func, ast.Attribute) else (it.func.id if isinstance(it.func, ast.Name) else None)
        r = it.args[1]
        if fn in ("combinations", "permutations") and isinstance(r, ast.Constant) and isinstance(r.value, int) and k <= r.value:
            return True
    return False


def _merge_complementary(pieces: list) -> list:
    """The same update made on two paths of the loop body that differ in ONE test only (`if a: X` followed by an independent `if b: Y` gives X
    under a∧b and under a∧¬b) is the update under the remaining tests: (S ∧ c) ∨ (S ∧ ¬c) = S."""
    def neg(c):
        return c[1] if c[0] == "not" else ("not", c)
    out = list(pieces)
    changed = True
    while changed:
        changed = False
        for i in range(len(out)):
            for j in range(i + 1, len(out)):
                k1, p1, e1, in1 = out[i]
                k2, p2, e2, in2 = out[j]
                if (k1, p1, in1) != (k2, p2, in2) or len(e1) != len(e2):
                    continue
                s1, s2 = list(e1), list(e2)
                d1 = [c for c in s1 if c not in s2]
                d2 = [c for c in s2 if c not in s1]
                if len(d1) == 1 and len(d2) == 1 and (d1[0] == neg(d2[0]) or d2[0] == neg(d1[0])):
                    merged = (k1, p1, tuple(c for c in s1 if c != d1[0]), in1)
                    out = [x for n_, x in enumerate(out) if n_ not in (i, j)]
                    out.insert(i, merged)
                    changed = True
                    break
            if changed:
                break
    return out


def _body_reads_name(stmts: list, name: str) -> bool:
    """Does the loop body read the variable `name` anywhere (so that the value of one iteration can depend on the previous one's)?"""
    for st in stmts:
        for n in ast.walk(st):
            if isinstance(n, ast.Name) and n.id == name and isinstance(n.ctx, ast.Load):
                return True
            if isinstance(n, ast.AugAssign) and isinstance(n.target, ast.Name) and n.target.id == name:
                return True
    return False


def _mk_accum(kind: str, res: Term, payload: Term, gens: tuple, has_break: bool) -> Term:
    return ("accum", kind, res, payload, tuple(gens), const(bool(has_break)))


def _first_ite(t):
    bv = None
    for s_ in _subterms(t):
        if s_[0] == "ite" or (s_[0] == "orelse" and len(s_) == 3):
            if bv is None:
                bv = bound_vars(t)
            if bv:
                own = bound_vars(s_[1])
                if any(x in bv and x not in own for x in _subterms(s_[1]) if x[0] == "var"):
                    continue  # the test depends on a variable bound inside t (around the test): not a case distinction of the whole path
            return s_
    return None


def _subterms(t):
    if isinstance(t, tuple):
        if t and isinstance(t[0], str):
            yield t
            for x in t[1:]:
                yield from _subterms(x)
        else:
            for x in t:
                yield from _subterms(x)


def resolve_ites(paths: list[Path], limit: int = 64) -> list[Path]:
    """Conditional expressions inside a returned value are case distinctions: decide them from the path's own guard, or split the path."""
    out: list[Path] = []
    work = list(paths)
    budget = limit * max(1, len(paths))
    while work:
        p = work.pop()
        budget -= 1
        it = _first_ite(p.value)
        if it is None:
            for c0 in p.conds:
                it = _first_ite(c0)
                if it is not None:
                    break
        if it is None or budget < 0:
            out.append(p)
            continue
        if it[0] == "orelse":
            # `a or b` as a value: a when a is truthy, else b
            it_node, it = it, ("ite", ("truth", it[1]), it[1], it[2])
        else:
            it_node = it
        c = it[1]
        ca = alpha_normalise_bound(c)
        pos = {alpha_normalise_bound(x) for x in p.conds}
        neg = {alpha_normalise_bound(_neg(x)) for x in p.conds}
        lits_t = [l for alt in _pos_alts(c, 8) for l in alt] if c[0] in ("and", "or", "not") else [c]
        def red(path, branch, extra=()):
            m = {it_node: branch}
            conds = tuple(subst(x, m) for x in path.conds)
            for l in extra:
                conds = add_cond(conds, l)
            return replace(path, conds=conds, value=subst(path.value, m))

        if ca in pos or (c[0] == "and" and all(alpha_normalise_bound(x) in pos for x in c[1:])):
            work.append(red(p, it[2]))
        elif ca in neg or alpha_normalise_bound(_neg(c)) in pos:
            work.append(red(p, it[3]))
        else:
            for alt in _pos_alts(c, 8):
                work.append(red(p, it[2], alt))
            for alt in _neg_alts(c, 8):
                work.append(red(p, it[3], alt))
    # drop syntactically contradictory paths
    res = []
    for p in out:
        pos = {alpha_normalise_bound(c) for c in p.conds if c[0] != "not"}
        if any(c[0] == "not" and alpha_normalise_bound(c[1]) in pos for c in p.conds):
            continue
        res.append(p)
    return res


def dnf_paths(paths: list[Path], limit: int = 32) -> list[Path]:
    """Split every path whose guard contains a disjunction into paths whose guards are conjunctions of literals
    (`if A or B: s` is `if A: s elif B: s`).  Values are untouched, so the set of (input, outcome) pairs is the same."""
    out: list[Path] = []
    for p in paths:
        alts: list[list[Term]] = [[]]
        for c in p.conds:
            cs = _pos_alts(c, limit)
            alts = [a + b for a in alts for b in cs]
            if len(alts) > limit:
                alts = None
                break
        if alts is None or len(alts) == 1 and len(alts[0]) == len(p.conds) and tuple(alts[0]) == tuple(p.conds):
            out.append(p)
            continue
        for a in alts:
            conds: tuple = ()
            for c in a:
                conds = add_cond(conds, c)
            # drop syntactically contradictory alternatives
            pos = {alpha_normalise_bound(c) for c in conds if c[0] != "not"}
            if any(c[0] == "not" and alpha_normalise_bound(c[1]) in pos for c in conds):
                continue
            out.append(replace(p, conds=conds))
    return resolve_ites(out)


def bool_paths(paths: list[Path]) -> list[Path]:
    """A predicate that returns a boolean EXPRESSION (`return a == b`) is the same as one that tests it and returns True / False:
    every return path with a non-constant boolean value is split into its two outcomes."""
    out: list[Path] = []
    for p in paths:
        v = p.value
        if p.kind != "return" or v in (TRUE, FALSE) or v[0] == "const":
            out.append(p)
            continue
        if v[0] in ("eq", "ne", "in", "not", "and", "or", "isinstance", "truth", "any", "all", "lt", "le", "subset", "psubset", "isnone", "disjoint", "call", "meth"):
            for alt in _pos_alts(v, 16):
                conds = p.conds
                for l in alt:
                    conds = add_cond(conds, l)
                out.append(replace(p, conds=conds, value=TRUE))
            for alt in _neg_alts(v, 16):
                conds = p.conds
                for l in alt:
                    conds = add_cond(conds, l)
                out.append(replace(p, conds=conds, value=FALSE))
        else:
            out.append(p)
    return out
