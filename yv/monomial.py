"""E4 -- multiplicative monomials.

Denotation of an expression term is an element of the free abelian group over atoms (integer exponent
vector) plus an absorbing `zero` flag.  `cls_of_atom` tells, per path, the dynamic class of an opaque
expression atom so that a Fraction/Product/One/Zero atom is expanded through its fields.
"""

from __future__ import annotations

from dataclasses import dataclass, field
from typing import Any, Callable

from .terms import Term, show

DSL = "y0.dsl."


@dataclass
class Mono:
    exp: dict = field(default_factory=dict)
    zero: bool = False
    unknown: str | None = None

    def mul(self, o: "Mono", sign: int = 1) -> "Mono":
        r = Mono(dict(self.exp), self.zero, self.unknown or o.unknown)
        if sign == 1 and o.zero:
            r.zero = True
        if sign == -1 and o.zero:
            r.unknown = r.unknown or "division by zero"
        for k, v in o.exp.items():
            r.exp[k] = r.exp.get(k, 0) + sign * v
            if r.exp[k] == 0:
                del r.exp[k]
        return r

    def same(self, o: "Mono") -> bool:
        if self.unknown or o.unknown:
            return False
        if self.zero or o.zero:
            return self.zero == o.zero
        return self.exp == o.exp

    def show(self) -> str:
        if self.unknown:
            return f"?({self.unknown})"
        if self.zero:
            return "0"
        if not self.exp:
            return "1"
        num = [f"{show(k)}" + (f"^{v}" if v != 1 else "") for k, v in sorted(self.exp.items(), key=lambda kv: repr(kv[0])) if v > 0]
        den = [f"{show(k)}" + (f"^{-v}" if v != -1 else "") for k, v in sorted(self.exp.items(), key=lambda kv: repr(kv[0])) if v < 0]
        s = "·".join(num) or "1"
        if den:
            s += " / " + "·".join(den)
        return s


def atom(t: Term) -> Mono:
    return Mono({t: 1})


class Denoter:
    def __init__(self, cls_of_atom: Callable[[Term], str | None]) -> None:
        self.cls_of_atom = cls_of_atom

    def expand_atom(self, t: Term) -> Mono:
        k = self.cls_of_atom(t)
        if k == "One":
            return Mono()
        if k == "Zero":
            return Mono(zero=True)
        if k == "Fraction":
            return self.d(("attr", t, "numerator")).mul(self.d(("attr", t, "denominator")), -1)
        if k == "Product":
            return Mono({("prod", ("attr", t, "expressions")): 1})
        return atom(t)

    def d(self, t: Term) -> Mono:
        h = t[0]
        if h == "attr" and t[2] == "numerator" and isinstance(t[1], tuple) and t[1] and t[1][0] in ("op", "meth", "call", "rec", "new"):
            # the numerator of a COMPUTED fraction q (only a Fraction has one):  q = q.numerator / q.denominator,  so  q.numerator = q · q.denominator
            return self.d(t[1]).mul(atom(("attr", t[1], "denominator")))
        if h in ("var", "attr", "index"):
            return self.expand_atom(t)
        if h == "op" and t[1] == "*":
            return self.d(t[2]).mul(self.d(t[3]))
        if h == "op" and t[1] == "/":
            return self.d(t[2]).mul(self.d(t[3]), -1)
        if h in ("rec", "new"):
            name = t[1].split(".")[-1]
            f = dict(t[2]) if h == "rec" else dict(t[3])
            if name == "Fraction":
                n, dd = f.get("numerator"), f.get("denominator")
                if n is None or dd is None:
                    return Mono(unknown="Fraction fields")
                return self.d(n).mul(self.d(dd), -1)
            if name == "One":
                return Mono()
            if name == "Zero":
                return Mono(zero=True)
            if name == "Product":
                ex = f.get("expressions")
                return self.d_seq(ex) if ex is not None else Mono(unknown="Product fields")
            return atom(t)
        if h == "call" and isinstance(t[1], str) and t[1].endswith("Product.safe"):
            kw = dict(t[3])
            ex = kw.get("expressions", t[2][0] if t[2] else None)
            if ex is None:
                return Mono(unknown="Product.safe args")
            return self.d_seq(ex)
        if h == "call" and isinstance(t[1], str) and t[1].split(".")[-1] in ("One", "Zero") and not t[2]:
            return Mono() if t[1].endswith("One") else Mono(zero=True)
        if h == "meth" and t[2] in ("simplify",) and not t[3]:
            # value-preserving by the rule that checks the callee itself
            return self.d(t[1])
        if h == "meth" and t[2] == "flip" and not t[3]:
            return Mono().mul(self.d(t[1]), -1)
        if h == "ite":
            a, b = self.d(t[2]), self.d(t[3])
            if a.same(b):
                return a
            return Mono(unknown="branches differ: " + a.show() + " | " + b.show())
        return atom(t)

    def d_seq(self, ex: Term) -> Mono:
        """Product over a sequence term."""
        h = ex[0]
        if h in ("tuplelit", "listlit"):
            r = Mono()
            for x in ex[1]:
                if x[0] == "star":
                    r = r.mul(self.d_seq(x[1]))
                else:
                    r = r.mul(self.d(x))
            return r
        if h == "attr" and ex[2] == "expressions":
            # Π x.expressions  ==  x  when x is a Product
            return Mono({("prod", ex): 1})
        if h == "concat":
            return self.d_seq(ex[1]).mul(self.d_seq(ex[2]))
        if h == "call" and isinstance(ex[1], str) and ex[1].split(".")[-1] in ("tuple", "list", "sorted", "iter", "reversed") and ex[2]:
            return self.d_seq(ex[2][0])
        return Mono({("prod", ex): 1})
