"""E11 -- discipline of ordering keys.

Everything the library sorts (variables inside a distribution, factors of a product, the two copies of a merged counterfactual variable, latents
with equal children) is sorted through a handful of key functions and one explicit `__lt__`.  Three facts about a key are visible in its code
and are necessary for the sort to be a total, reproducible order:

  K1  every component has a totally ordered type, and the SAME type on every return path: a `frozenset` component is ordered by inclusion (a
      partial order -- incomparable keys keep their input order, so the "canonical" result depends on how the input was written); a position that
      is a `str` on one path and an `int` on another raises TypeError as soon as two such keys meet.
  K2  a field that equality compares is read as it is, not through a lossy transformation: `int()` of a piece of a name (X1 / X01), a regular
      expression, `lower()` / `strip()` / `split()`, a slice, a `len()` -- two different objects then get the same key although `==` tells them
      apart, and with `functools.total_ordering` both `a > b` and `b > a` hold.
  K3  (rule modules) the key itself is the documented one where another routine's meaning hangs on it (merge_pw keeps "the lower" of two copies).

The engine evaluates the key function symbolically (one term per return path) and infers component kinds from constants, constructor calls,
printers, and the declared types of the fields that are read.
"""

from __future__ import annotations

from .model import Func, Model
from .symeval import Evaluator
from .terms import Term, is_term, show, subterms

SCALARS = {"str", "int", "bool", "float"}
LOSSY_METHODS = {"lower", "upper", "casefold", "strip", "lstrip", "rstrip", "split", "rsplit", "partition", "rpartition", "group", "groups", "isdigit",
                 "isnumeric", "replace", "title", "capitalize", "swapcase", "zfill", "removeprefix", "removesuffix", "translate", "encode"}


def _kind(t: Term, ev: Evaluator, depth: int = 0):
    """'str' | 'int' | 'bool' | 'none' | 'set' | ('tuple', [kinds...]) | ('seq', kind-of-elements) | None (not inferred)"""
    if depth > 12 or not is_term(t):
        return None
    h = t[0]
    if h == "const":
        v = t[1]
        if v is None:
            return "none"
        if isinstance(v, bool):
            return "bool"
        if isinstance(v, int):
            return "int"
        if isinstance(v, str):
            return "str"
        if isinstance(v, float):
            return "float"
        return None
    if h in ("fstr", "fmt"):
        return "str"
    if h in ("truth", "nonempty", "not", "and", "or", "eq", "ne", "isinstance", "isnone", "in", "lt", "le"):
        return "bool"
    if h == "tuplelit":
        if any(x[0] == "star" for x in t[1]):
            return ("tuple", None)
        return ("tuple", tuple(_kind(x, ev, depth + 1) for x in t[1]))
    if h in ("setlit", "setof", "union", "inter", "diff") or (h == "comp" and t[1] == "set"):
        return "set"
    if h == "comp" and t[1] in ("list", "gen"):
        return ("seq", _kind(t[2], ev, depth + 1))
    if h == "call" and isinstance(t[1], str):
        name = t[1].split(".")[-1]
        if name in ("frozenset", "set"):
            return "set"
        if name in ("int", "len", "ord", "hash", "index"):
            return "int"
        if name in ("str", "repr", "format", "chr"):
            return "str"
        if name == "bool":
            return "bool"
        if name in ("tuple", "list", "sorted", "reversed") and len(t[2]) == 1:
            inner = _kind(t[2][0], ev, depth + 1)
            if inner == "set":
                return ("seq", None) if name == "sorted" else "set-as-seq"
            return inner if isinstance(inner, tuple) else ("seq", None)
    if h == "meth":
        if t[2] in ("join", "to_y0", "to_text", "to_latex", "format", "lower", "upper", "strip"):
            return "str"
        if t[2] in ("index", "count", "find"):
            return "int"
    if h == "ite" and len(t) == 4:
        a, b = _kind(t[2], ev, depth + 1), _kind(t[3], ev, depth + 1)
        if a == b:
            return a
        if isinstance(a, str) and isinstance(b, str) and a in SCALARS and b in SCALARS and {a, b} <= {"int", "bool"}:
            return "int"
        return ("either", a, b)
    if h == "attr":
        typ = ev.typeof(t)
        if isinstance(typ, str) and typ in SCALARS | {"none"}:
            return typ
        if isinstance(typ, tuple) and typ:
            if typ[0] in ("set", "frozenset"):
                return "set"
            if typ[0] == "union":
                ks = {x if isinstance(x, str) else None for x in typ[1]}
                if ks <= SCALARS | {"none"} and None not in ks:
                    return ("either",) + tuple(sorted(ks))
        if t[2] == "name":
            return "str"
    if h == "op" and len(t) == 4 and t[1] in ("+", "-", "*"):
        a, b = _kind(t[2], ev, depth + 1), _kind(t[3], ev, depth + 1)
        if a == b and a in SCALARS:
            return a
    return None


def _flatten(kind, pos=()):
    """[(position tuple, kind)] for the scalar / set leaves of a key's kind tree"""
    if isinstance(kind, tuple) and kind and kind[0] == "tuple" and isinstance(kind[1], tuple):
        out = []
        for i, k in enumerate(kind[1]):
            out.extend(_flatten(k, pos + (i,)))
        return out
    if isinstance(kind, tuple) and kind and kind[0] == "seq":
        return _flatten(kind[1], pos + ("*",))
    return [(pos, kind)]


def _lossy_reads(t: Term, ev: Evaluator) -> list[str]:
    out = []
    for s in subterms(t):
        if s[0] == "call" and isinstance(s[1], str) and s[1].split(".")[-1] == "int" and len(s[2]) == 1:
            a = s[2][0]
            ka = _kind(a, ev)
            if ka in ("bool", "int") or (a[0] == "call" and a[1] == "bool") or a[0] in ("truth", "nonempty", "not", "and", "or", "eq", "ne", "isinstance", "isnone", "in") or (isinstance(ka, tuple) and ka and ka[0] == "either" and set(ka[1:]) <= {"bool", "int", "none"}):
                continue
            if a[0] == "const":
                continue
            out.append(f"int({show(a)[:60]}) -- two spellings of a number (1, 01) get one key")
        if s[0] == "call" and isinstance(s[1], str) and (s[1].startswith("re.") or ".re." in s[1] or s[1].split(".")[-1] in ("split", "match", "search", "findall", "sub", "fullmatch")) \
                and s[1].split(".")[0] in ("re", "regex"):
            out.append(f"{s[1]}(...) -- the field is read through a regular expression")
        if s[0] == "meth" and s[2] in LOSSY_METHODS and is_term(s[1]) and s[1][0] in ("attr", "var", "index", "meth", "call"):
            rk = _kind(s[1], ev)
            if rk == "str" or s[2] in ("group", "groups", "split", "isdigit"):
                out.append(f".{s[2]}() on {show(s[1])[:50]} -- a lossy view of the field")
    return out


_NOFOLD = object()


def _fold(t, leaf, value):
    """Value of a term whose only non-constant leaf is `leaf`, with `leaf` := value; _NOFOLD when a form is outside the small folder."""
    if t == leaf:
        return value
    if not is_term(t):
        return _NOFOLD
    h = t[0]
    if h == "const":
        return t[1]
    if h == "ite" and len(t) == 4:
        c = _fold(t[1], leaf, value)
        return _NOFOLD if c is _NOFOLD else _fold(t[2] if c else t[3], leaf, value)
    if h == "isnone" and len(t) == 2:
        a = _fold(t[1], leaf, value)
        return _NOFOLD if a is _NOFOLD else a is None
    if h in ("truth", "nonempty") and len(t) == 2:
        a = _fold(t[1], leaf, value)
        return _NOFOLD if a is _NOFOLD else bool(a)
    if h == "not" and len(t) == 2:
        a = _fold(t[1], leaf, value)
        return _NOFOLD if a is _NOFOLD else not a
    if h in ("and", "or"):
        xs = t[1] if len(t) == 2 and isinstance(t[1], tuple) and t[1] and is_term(t[1][0]) else t[1:]
        vals = [_fold(x, leaf, value) for x in xs]
        if any(v is _NOFOLD for v in vals):
            return _NOFOLD
        r = vals[0]
        for v in vals[1:]:
            r = (r and v) if h == "and" else (r or v)
        return r
    if h in ("eq", "ne", "is", "isnot") and len(t) == 3:
        a, b = _fold(t[1], leaf, value), _fold(t[2], leaf, value)
        if a is _NOFOLD or b is _NOFOLD:
            return _NOFOLD
        return {"eq": a == b, "ne": a != b, "is": a is b, "isnot": a is not b}[h]
    if h == "call" and isinstance(t[1], str) and t[1].split(".")[-1] in ("int", "bool", "str", "repr") and len(t[2]) == 1 and not t[3]:
        a = _fold(t[2][0], leaf, value)
        if a is _NOFOLD:
            return _NOFOLD
        try:
            return {"int": int, "bool": bool, "str": str, "repr": repr}[t[1].split(".")[-1]](a)
        except (TypeError, ValueError):
            return _NOFOLD
    if h == "tuplelit":
        vals = tuple(_fold(x, leaf, value) for x in t[1])
        return _NOFOLD if any(v is _NOFOLD for v in vals) else vals
    return _NOFOLD


def _leaves(t, acc):
    if not is_term(t):
        return
    if t[0] == "const":
        return
    if t[0] in ("attr", "var"):
        acc.add(t)
        return
    for x in t[1:]:
        if is_term(x):
            _leaves(x, acc)
        elif isinstance(x, tuple):
            for y in x:
                if is_term(y):
                    _leaves(y, acc)
                elif isinstance(y, tuple):
                    for z in y:
                        _leaves(z, acc) if is_term(z) else acc.add(("?",))
                elif y is not None and not isinstance(y, (str, int, bool)):
                    acc.add(("?",))
        elif x is not None and not isinstance(x, (str, int, bool)):
            acc.add(("?",))


def _tristate_collapses(k: Term, params: set) -> list[str]:
    """K2 on the one field with a three-valued domain: `star` is None on a plain variable, False / True on a value.  A key component computed
    from `<x>.star` alone must take different values for the different values of the field -- else a variable and one of its values (or the two
    values) get the same key although equality tells them apart.  Subscripts of a counterfactual variable are Interventions, whose constructor
    refuses None: their domain is {False, True}."""
    out = []
    seen = set()
    over_interventions = set()
    for s_ in subterms(k):
        if s_[0] == "comp":
            for pat, it, _cs in s_[3]:
                core = it
                while core[0] == "call" and core[2]:
                    core = core[2][0]
                if core[0] == "attr" and core[2] == "interventions" and pat[0] == "var":
                    over_interventions.add(pat)
        if s_[0] == "lam":
            pass

    def go(t):
        if not is_term(t) or t[0] in ("const", "var"):
            return
        if t[0] == "attr":
            return
        lv: set = set()
        _leaves(t, lv)
        if len(lv) == 1:
            (leaf,) = lv
            if t[0] in ("isnone", "truth", "nonempty", "not", "and", "or", "eq", "ne", "is", "isnot"):
                return  # a bare test is a path condition of the evaluator, not a component of the key
            if leaf[0] == "attr" and leaf[2] == "star" and leaf[1][0] == "var" and t not in seen:
                seen.add(t)
                dom = (False, True) if leaf[1] in over_interventions else (None, False, True)
                vals = [_fold(t, leaf, v) for v in dom]
                if not any(v is _NOFOLD for v in vals):
                    rep = [repr(v) for v in vals]
                    if len(set(rep)) < len(rep):
                        pairs = [f"star={dom[i]!r} and star={dom[j]!r} both give {rep[i]}" for i in range(len(dom)) for j in range(i + 1, len(dom)) if rep[i] == rep[j]]
                        out.append(f"`{show(t)[:80]}` is not one-to-one on the values of `{show(leaf)}`: " + "; ".join(pairs))
                return  # a piece of a form the folder does not read is not judged by its parts
        for x in t[1:]:
            if is_term(x):
                go(x)
            elif isinstance(x, tuple):
                for y in x:
                    if is_term(y):
                        go(y)
                    elif isinstance(y, tuple):
                        for z in y:
                            go(z)
    go(k)
    return out


def check_key_function(model: Model, f: Func, self_type=None, param_types: dict | None = None):
    """-> (problems: list[str], n_paths, sample) for one key function (or an explicit __lt__)"""
    ev = Evaluator(model, prim_methods={"to_y0", "to_text", "to_latex"})
    args = {}
    a = f.node.args
    params = [x.arg for x in a.posonlyargs + a.args]
    slf = None
    if f.cls is not None and not f.is_staticmethod and params:
        slf = ("var", params[0])
        ev.set_type(slf, self_type or ("cls", f.cls.qname))
        params = params[1:]
    for p in params:
        v = ("var", p)
        ann = next((x.annotation for x in a.posonlyargs + a.args if x.arg == p), None)
        typ = (param_types or {}).get(p) or (ev.parse_ann(f.module, ann) if ann is not None else None)
        if typ is not None:
            ev.set_type(v, typ)
        args[p] = v
    paths = [p for p in (ev.run(f, args, slf) if slf is not None else ev.run(f, args)) if p.kind == "return"]
    keys = []
    for p in paths:
        v = p.value
        if f.name == "__lt__":
            if v[0] in ("lt",) and len(v) == 3:
                keys.append(v[1])
            continue
        keys.append(v)
    problems: list[str] = []
    by_pos: dict = {}
    for k in keys:
        for pos, kind in _flatten(_kind(k, ev)):
            by_pos.setdefault(pos, set()).add(kind)
        for why in _lossy_reads(k, ev):
            problems.append("a compared field is not read as it is: " + why)
        for why in _tristate_collapses(k, set(args) | ({slf[1]} if slf else set())):
            problems.append("a compared field is not read as it is: " + why)
    for pos, kinds in sorted(by_pos.items(), key=lambda kv: repr(kv[0])):
        where = "component " + (".".join(str(i) for i in pos) if pos else "(whole key)")
        flat = set()
        for k in kinds:
            if isinstance(k, tuple) and k and k[0] == "either":
                flat |= set(k[1:])
            else:
                flat.add(k)
        if "set" in flat or "set-as-seq" in flat:
            problems.append(f"{where} is a set: sets are ordered by inclusion, which is a partial order -- keys that are not nested compare as neither smaller nor "
                            f"larger, a stable sort then keeps the order the input was written in")
        scal = {k for k in flat if k in SCALARS}
        if len(scal - {"bool"}) > 1 or (scal and "none" in flat):
            problems.append(f"{where} is {' on one path and '.join(sorted(str(k) for k in flat if k))} on another: comparing two such keys raises TypeError")
    return sorted(set(problems)), len(keys), {"paths": len(keys), "components": {".".join(map(str, p)) or "-": sorted(str(k) for k in ks) for p, ks in by_pos.items()}}
