"""Term language shared by the symbolic evaluator and the normalisers.

A term is a nested tuple whose first component is a head string.  Terms are immutable and hashable,
so they can be compared, put in sets and used as dictionary keys.
"""

from __future__ import annotations

from typing import Any, Callable, Iterator

Term = tuple


def var(name: str) -> Term:
    return ("var", name)


def const(v: Any) -> Term:
    return ("const", v)


NONE = ("const", None)
TRUE = ("const", True)
FALSE = ("const", False)
EMPTY = ("empty",)


def unknown(why: str, line: int = 0) -> Term:
    return ("unknown", why, line)


def is_term(x: Any) -> bool:
    return isinstance(x, tuple) and len(x) > 0 and isinstance(x[0], str)


def head(t: Term) -> str:
    return t[0]


def subterms(t: Any) -> Iterator[Term]:
    """All sub-terms (pre-order), descending through plain tuples too."""
    if isinstance(t, tuple):
        if is_term(t):
            yield t
        for x in t[1:] if is_term(t) else t:
            yield from subterms(x)


def contains(t: Any, pred: Callable[[Term], bool]) -> bool:
    return any(pred(s) for s in subterms(t))


def has_unknown(t: Any) -> bool:
    return contains(t, lambda s: s[0] == "unknown")


def free_vars(t: Any) -> set[str]:
    return {s[1] for s in subterms(t) if s[0] == "var"}


def mapterm(t: Any, f: Callable[[Term], Term | None]) -> Any:
    """Bottom-up rewrite: f gets each rebuilt term and returns a replacement or None."""
    if isinstance(t, tuple):
        if is_term(t):
            new = (t[0],) + tuple(mapterm(x, f) for x in t[1:])
            r = f(new)
            return new if r is None else r
        return tuple(mapterm(x, f) for x in t)
    return t


def subst(t: Any, mapping: dict[Term, Term]) -> Any:
    if not mapping:
        return t

    def f(s: Term) -> Term | None:
        return mapping.get(s)

    return mapterm(t, f)


def alpha_normalise(t: Any) -> Any:
    """Rename bound variables (names starting with '%') canonically in order of first occurrence."""
    order: dict[str, str] = {}

    def f(s: Term) -> Term | None:
        if s[0] == "var" and isinstance(s[1], str) and s[1].startswith("%"):
            if s[1] not in order:
                order[s[1]] = f"%{len(order)}"
            return ("var", order[s[1]])
        return None

    # pre-order numbering: walk first to assign numbers deterministically
    for s in subterms(t):
        if s[0] == "var" and isinstance(s[1], str) and s[1].startswith("%") and s[1] not in order:
            order[s[1]] = f"%{len(order)}"
    return mapterm(t, f)


def bound_vars(t: Any) -> set:
    """Variables bound INSIDE t: generator patterns of comprehensions / accumulations / big unions, lambda parameters, forall-not binders."""
    out: set = set()

    def pat_vars(p):
        if isinstance(p, tuple) and p and p[0] == "var":
            out.add(p)
        elif isinstance(p, tuple) and p and p[0] == "tuplelit":
            for x in p[1]:
                pat_vars(x)

    for s in subterms(t):
        if s[0] == "comp" and len(s) > 3:
            for g in s[3]:
                pat_vars(g[0])
        elif s[0] == "accum" and len(s) > 4:
            for g in s[4]:
                pat_vars(g[0])
        elif s[0] == "lam":
            for v in s[1]:
                out.add(v)
        elif s[0] == "after-iteration" and len(s) > 3:
            pat_vars(s[2])
        elif s[0] == "forall-not":
            pat_vars(s[1])
            for c in s[3]:
                if isinstance(c, tuple) and c and c[0] == "iter-elem":
                    pat_vars(c[1])
    return out


def alpha_normalise_bound(t: Any) -> Any:
    """Like alpha_normalise, but only for variables bound inside t (free loop variables keep their identity)."""
    bv = bound_vars(t)
    order: dict = {}
    for s in subterms(t):
        if s[0] == "var" and s in bv and s not in order:
            order[s] = ("var", f"%b{len(order)}")
    return mapterm(t, lambda s: order.get(s)) if order else t


def show(t: Any, depth: int = 0) -> str:
    """Human-readable rendering of a term (for reports)."""
    try:
        return _show(t, depth)
    except (IndexError, TypeError, KeyError):
        return repr(t)[:400]


def _show(t: Any, depth: int = 0) -> str:
    if not isinstance(t, tuple):
        return repr(t)
    if not is_term(t):
        return "(" + ", ".join(show(x, depth + 1) for x in t) + ")"
    h = t[0]
    if depth > 12:
        return "…"
    s = lambda x: show(x, depth + 1)  # noqa: E731
    if h == "var":
        return str(t[1])
    if h == "const":
        return repr(t[1])
    if h == "empty":
        return "∅"
    if h == "union":
        return "(" + " ∪ ".join(s(x) for x in t[1:]) + ")"
    if h == "inter":
        return "(" + " ∩ ".join(s(x) for x in t[1:]) + ")"
    if h == "diff":
        return f"({s(t[1])} ∖ {s(t[2])})"
    if h == "setof":
        return f"set({s(t[1])})"
    if h == "attr":
        return f"{s(t[1])}.{t[2]}"
    if h == "meth":
        args = ", ".join([s(a) for a in t[3]] + [f"{k}={s(v)}" for k, v in t[4]])
        return f"{s(t[1])}.{t[2]}({args})"
    if h == "call":
        args = ", ".join([s(a) for a in t[2]] + [f"{k}={s(v)}" for k, v in t[3]])
        return f"{t[1].split('.')[-1] if isinstance(t[1], str) else s(t[1])}({args})"
    if h == "rec":
        return f"{t[1].split('.')[-1]}(" + ", ".join(f"{k}={s(v)}" for k, v in t[2]) + ")"
    if h == "comp":
        gens = " ".join(
            f"for {s(g[0])} in {s(g[1])}" + "".join(f" if {s(c)}" for c in g[2]) for g in t[3]
        )
        br = {"set": "{}", "list": "[]", "gen": "()", "dict": "{}"}[t[1]]
        return f"{br[0]}{s(t[2])} {gens}{br[1]}"
    if h == "in":
        return f"{s(t[1])} ∈ {s(t[2])}"
    if h == "not":
        return f"¬({s(t[1])})"
    if h in ("and", "or"):
        return "(" + f" {h} ".join(s(x) for x in t[1:]) + ")"
    if h == "truth":
        return f"nonempty({s(t[1])})"
    if h == "ite":
        return f"({s(t[2])} if {s(t[1])} else {s(t[3])})"
    if h == "op":
        return f"({s(t[2])} {t[1]} {s(t[3])})"
    if h == "slice":
        return f"{s(t[1])}[{'' if t[2] == NONE else s(t[2])}:{'' if t[3] == NONE else s(t[3])}]"
    if h == "unknown":
        return f"⟨unknown: {t[1]}@{t[2]}⟩"
    return f"{h}(" + ", ".join(s(x) for x in t[1:]) + ")"
