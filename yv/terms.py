"""Term language shared by the symbolic evaluator and the normalisers.

A term is a nested tuple whose first component is a head string.  Terms are immutable and hashable,
so they can be compared, put in sets and used as dictionary keys.
"""

from __future__ import annotations

from typing import Any, Callable, Iterator

Term = tuple


def var(name: str) -> Term:
    return ("var", name)


def const(v: Any) -> Term:
    return ("const", v)


NONE = ("const", None)
TRUE = ("const", True)
FALSE = ("const", False)
EMPTY = ("empty",)


def unknown(why: str, line: int = 0) -> Term:
    return ("unknown", why, line)


def is_term(x: Any) -> bool:
    return isinstance(x, tuple) and len(x) > 0 and isinstance(x[0], str)


def head(t: Term) -> str:
    return t[0]


def subterms(t: Any) -> Iterator[Term]:
    """All sub-terms (pre-order), descending through plain tuples too."""
    if isinstance(t, tuple):
        if is_term(t):
            yield t
        for x in t[1:] if is_term(t) else t:
            yield from subterms(x)


def contains(t: Any, pred: Callable[[Term], bool]) -> bool:
    return any(pred(s) for s in subterms(t))


def has_unknown(t: Any) -> bool:
    return contains(t, lambda s: s[0] == "unknown")


def free_vars(t: Any) -> set[str]:
    return {s[1] for s in subterms(t) if s[0] == "var"}


def mapterm(t: Any, f: Callable[[Term], Term | None]) -> Any:
    """Bottom-up rewrite: f gets each rebuilt term and returns a replacement or None."""
    if isinstance(t, tuple):
        if is_term(t):
            new = (t[0],) + tuple(mapterm(x, f) for x in t[1:])
            r = f(new)
            return new if r is None else r
        return tuple(mapterm(x, f) for x in t)
    return t


def subst(t: Any, mapping: dict[Term, Term]) -> Any:
    if not mapping:
        return t

    def f(s: Term) -> Term | None:
        return mapping.get(s)

    return mapterm(t, f)


def _pat_vars_of(p: Any) -> list:
    if isinstance(p, tuple) and p and p[0] == "var":
        return [p]
    if isinstance(p, tuple) and p and p[0] == "tuplelit":
        out = []
        for x in p[1]:
            out.extend(_pat_vars_of(x))
        return out
    return []


def scope_normalise(t: Any, depth: int = 0) -> Any:
    """Rename the variables each binder introduces (comprehension / accumulation generators, lambda parameters, search-loop patterns) to names
    that depend only on the binder's nesting depth and the variable's position in it: two copies of the same comprehension get the same names
    wherever they stand and whatever their variables were called."""
    if not isinstance(t, tuple):
        return t
    if not is_term(t):
        return tuple(scope_normalise(x, depth) for x in t)
    h = t[0]

    def bind(pat, m, k):
        for v in _pat_vars_of(pat):
            if v not in m:
                m[v] = ("var", f"%β{depth}.{k[0]}")
                k[0] += 1
        return subst(pat, m)

    def gens_of(gens, m, k):
        out = []
        for g in gens:
            pat, it, conds = g[0], g[1], g[2]
            it2 = scope_normalise(subst(it, m), depth + 1)
            pat2 = bind(pat, m, k)
            conds2 = tuple(scope_normalise(subst(c, m), depth + 1) for c in conds)
            out.append((pat2, it2, conds2) + tuple(g[3:]))
        return tuple(out)

    if h == "comp" and len(t) > 3 and isinstance(t[3], tuple) and all(isinstance(g, tuple) and len(g) >= 3 for g in t[3]):
        m: dict = {}
        k = [0]
        gens = gens_of(t[3], m, k)
        return ("comp", t[1], scope_normalise(subst(t[2], m), depth + 1), gens) + tuple(scope_normalise(x, depth) for x in t[4:])
    if h == "accum" and len(t) > 5 and isinstance(t[4], tuple) and all(isinstance(g, tuple) and len(g) >= 3 for g in t[4]):
        m = {}
        k = [0]
        base = scope_normalise(t[2], depth)
        gens = gens_of(t[4], m, k)
        return ("accum", t[1], base, scope_normalise(subst(t[3], m), depth + 1), gens, t[5])
    if h == "lam" and len(t) == 3:
        m = {}
        k = [0]
        params = tuple(bind(v, m, k) for v in t[1])
        return ("lam", params, scope_normalise(subst(t[2], m), depth + 1))
    if h == "after-iteration" and len(t) > 3:
        m = {}
        k = [0]
        it2 = scope_normalise(t[3], depth)
        pat2 = bind(t[2], m, k)
        return ("after-iteration", scope_normalise(subst(t[1], m), depth + 1), pat2, it2) + tuple(t[4:])
    if h == "forall-not" and len(t) == 4:
        m = {}
        k = [0]
        it2 = scope_normalise(t[2], depth)
        pat2 = bind(t[1], m, k)
        conds = []
        for c in t[3]:
            c2 = subst(c, m)
            if isinstance(c2, tuple) and c2 and c2[0] == "iter-elem":
                src = scope_normalise(c2[2], depth + 1)
                p2 = bind(c2[1], m, k)
                conds.append(("iter-elem", p2, src))
            else:
                conds.append(scope_normalise(c2, depth + 1))
        return ("forall-not", pat2, it2, tuple(conds))
    return (h,) + tuple(scope_normalise(x, depth) for x in t[1:])


def alpha_normalise(t: Any) -> Any:
    """Canonical names for '%' variables: binder-introduced ones by scope (scope_normalise), the remaining (free) ones in order of first
    occurrence."""
    t = scope_normalise(t)
    order: dict[str, str] = {}

    def f(s: Term) -> Term | None:
        if s[0] == "var" and isinstance(s[1], str) and s[1].startswith("%") and not s[1].startswith("%β"):
            if s[1] not in order:
                order[s[1]] = f"%{len(order)}"
            return ("var", order[s[1]])
        return None

    # pre-order numbering: walk first to assign numbers deterministically
    for s in subterms(t):
        if s[0] == "var" and isinstance(s[1], str) and s[1].startswith("%") and not s[1].startswith("%β") and s[1] not in order:
            order[s[1]] = f"%{len(order)}"
    return mapterm(t, f)


def bound_vars(t: Any) -> set:
    """Variables bound INSIDE t: generator patterns of comprehensions / accumulations / big unions, lambda parameters, forall-not binders."""
    out: set = set()

    def pat_vars(p):
        if isinstance(p, tuple) and p and p[0] == "var":
            out.add(p)
        elif isinstance(p, tuple) and p and p[0] == "tuplelit":
            for x in p[1]:
                pat_vars(x)

    for s in subterms(t):
        if s[0] == "comp" and len(s) > 3:
            for g in s[3]:
                pat_vars(g[0])
        elif s[0] == "accum" and len(s) > 4:
            for g in s[4]:
                pat_vars(g[0])
        elif s[0] == "lam":
            for v in s[1]:
                out.add(v)
        elif s[0] == "after-iteration" and len(s) > 3:
            pat_vars(s[2])
        elif s[0] == "forall-not":
            pat_vars(s[1])
            for c in s[3]:
                if isinstance(c, tuple) and c and c[0] == "iter-elem":
                    pat_vars(c[1])
    return out


def alpha_normalise_bound(t: Any) -> Any:
    """Like alpha_normalise, but only for variables bound inside t (free loop variables keep their identity)."""
    bv = bound_vars(t)
    order: dict = {}
    for s in subterms(t):
        if s[0] == "var" and s in bv and s not in order:
            order[s] = ("var", f"%b{len(order)}")
    return mapterm(t, lambda s: order.get(s)) if order else t


def show(t: Any, depth: int = 0) -> str:
    """Human-readable rendering of a term (for reports)."""
    try:
        return _show(t, depth)
    except (IndexError, TypeError, KeyError):
        return repr(t)[:400]


def _show(t: Any, depth: int = 0) -> str:
    if not isinstance(t, tuple):
        return repr(t)
    if not is_term(t):
        return "(" + ", ".join(show(x, depth + 1) for x in t) + ")"
    h = t[0]
    if depth > 12:
        return "…"
    s = lambda x: show(x, depth + 1)  # noqa: E731
    if h == "var":
        return str(t[1])
    if h == "const":
        return repr(t[1])
    if h == "empty":
        return "∅"
    if h == "union":
        return "(" + " ∪ ".join(s(x) for x in t[1:]) + ")"
    if h == "inter":
        return "(" + " ∩ ".join(s(x) for x in t[1:]) + ")"
    if h == "diff":
        return f"({s(t[1])} ∖ {s(t[2])})"
    if h == "setof":
        return f"set({s(t[1])})"
    if h == "attr":
        return f"{s(t[1])}.{t[2]}"
    if h == "meth":
        args = ", ".join([s(a) for a in t[3]] + [f"{k}={s(v)}" for k, v in t[4]])
        return f"{s(t[1])}.{t[2]}({args})"
    if h == "call":
        args = ", ".join([s(a) for a in t[2]] + [f"{k}={s(v)}" for k, v in t[3]])
        return f"{t[1].split('.')[-1] if isinstance(t[1], str) else s(t[1])}({args})"
    if h == "rec":
        return f"{t[1].split('.')[-1]}(" + ", ".join(f"{k}={s(v)}" for k, v in t[2]) + ")"
    if h == "comp":
        gens = " ".join(
            f"for {s(g[0])} in {s(g[1])}" + "".join(f" if {s(c)}" for c in g[2]) for g in t[3]
        )
        br = {"set": "{}", "list": "[]", "gen": "()", "dict": "{}"}[t[1]]
        return f"{br[0]}{s(t[2])} {gens}{br[1]}"
    if h == "in":
        return f"{s(t[1])} ∈ {s(t[2])}"
    if h == "not":
        return f"¬({s(t[1])})"
    if h in ("and", "or"):
        return "(" + f" {h} ".join(s(x) for x in t[1:]) + ")"
    if h == "truth":
        return f"nonempty({s(t[1])})"
    if h == "ite":
        return f"({s(t[2])} if {s(t[1])} else {s(t[3])})"
    if h == "op":
        return f"({s(t[2])} {t[1]} {s(t[3])})"
    if h == "slice":
        return f"{s(t[1])}[{'' if t[2] == NONE else s(t[2])}:{'' if t[3] == NONE else s(t[3])}]"
    if h == "unknown":
        return f"⟨unknown: {t[1]}@{t[2]}⟩"
    return f"{h}(" + ", ".join(s(x) for x in t[1:]) + ")"
