"""Published algorithms behind C09 (Correa, Lee & Bareinboim 2022): Algorithm 2 (ctfTRu), Algorithm 3 (ctfTR), Algorithm 4 (sigma-TR),
Definition 4.1 (inconsistent counterfactual factor), written as plain Python over the repository's own sub-routines (each of which is
compared with ITS definition by C19 / C17).  PARSED and compared as terms by the checker; never imported or executed.
"""

import itertools as itt
from collections import defaultdict

from y0.algorithm.counterfactual_transport.ancestor_utils import get_ancestors_of_counterfactual, get_ancestral_components
from y0.algorithm.counterfactual_transport.api import (
    ConditionalCFTResult,
    UnconditionalCFTResult,
    _any_inconsistent_intervention_values,
    _any_variable_values_inconsistent_with_interventions,
    _counterfactual_factor_is_inconsistent,
    _event_base,
    _event_from_counterfactuals,
    _event_from_counterfactuals_strict,
    _initialize_conditional_transportability_data_structures,
    _no_intervention_variables_in_domain,
    _no_transportability_nodes_in_domain,
    _remove_transportability_vertices,
    _transport_conditional_counterfactual_query_line_2,
    _transport_conditional_counterfactual_query_line_4,
    _transport_unconditional_counterfactual_query_line_2,
    _validate_transport_conditional_counterfactual_query_input,
    _validate_transport_conditional_counterfactual_query_line_4_output,
    _validate_transport_unconditional_counterfactual_query_input,
    convert_to_counterfactual_factor_form,
    get_counterfactual_factors_retaining_variable_values,
    simplify,
    transport_conditional_counterfactual_query,
    transport_district_intervening_on_parents,
    transport_unconditional_counterfactual_query,
    validate_inputs_for_transport_district_intervening_on_parents,
)
from y0.algorithm.tian_id import compute_c_factor, identify_district_variables
from y0.algorithm.transport import transport_variable
from y0.dsl import CounterfactualVariable, Fraction, Intervention, Product, Sum, Variable, Zero


# ---- Algorithm 2 (ctfTRu) --------------------------------------------------------------------------------------------------------------
def ctf_tru(event, target_domain_graph, domain_graphs, domain_data):
    _validate_transport_unconditional_counterfactual_query_input(
        event=event, target_domain_graph=target_domain_graph, domain_graphs=domain_graphs, domain_data=domain_data
    )
    # line 1: Y* <- SIMPLIFY(Y*); an impossible event has probability zero
    simplified = simplify(event=event, graph=target_domain_graph)
    if simplified is None:
        return UnconditionalCFTResult(expression=Zero(), event=simplified)
    # line 2: W* = An(Y*), ctf-factors C_1*, ..., C_k* of W*
    ancestors_with_values, factors = _transport_unconditional_counterfactual_query_line_2(simplified, target_domain_graph)
    # line 3: an inconsistent factor -> FAIL
    if any(_counterfactual_factor_is_inconsistent(c) for c in factors):
        return None
    # lines 4-9: every factor must be transportable from some domain (sigma-TR); otherwise FAIL
    qs = []
    for c in factors:
        q = transport_district_intervening_on_parents(
            district={variable.get_base() for variable, _ in c}, domain_graphs=domain_graphs, domain_data=domain_data
        )
        if q is None:
            return None
        qs.append(q)
    # line 10:  Σ_{w* ∖ y*} Π_i Q_i
    summed = {variable.get_base() for variable, value in ancestors_with_values if (variable, value) not in simplified}
    return UnconditionalCFTResult(expression=Sum.safe(Product.safe(qs), summed), event=simplified)


def ctf_tru_line_2(event, graph):
    d = set()
    for y, _ in event:
        d.update(get_ancestors_of_counterfactual(y, graph))
    given = dict(event)
    d_valued = {(w, given[w]) if w in given else (w, None) for w in d}
    d_cf = {(convert_to_counterfactual_factor_form(event=[(w, x)], graph=graph)[0][0], x) for w, x in d_valued}
    # the ctf-factors are those of the districts of G[V(An(Y*))], not of G
    factors = get_counterfactual_factors_retaining_variable_values(event=d_cf, graph=graph.subgraph({w.get_base() for w in d}))
    return d_valued, factors


# ---- Definition 4.1: a ctf-factor is inconsistent if a variable's value disagrees with a subscript on that variable, or two subscripts
# ---- on one variable disagree ---------------------------------------------------------------------------------------------------------
def values_vs_subscripts(event):
    seen = defaultdict(set)
    names = {variable.get_base() for variable, _ in event}
    subscripted = {variable for variable, _ in event if isinstance(variable, CounterfactualVariable)}
    both = {i.get_base() for variable in subscripted for i in variable.interventions}.intersection(names)
    for variable, value in event:
        if variable.get_base() in both and value is not None:
            seen[variable.get_base()].update({value})
        if isinstance(variable, CounterfactualVariable):
            for i in variable.interventions:
                if i.get_base() in both:
                    seen[i.get_base()].update({i})
    return any(len(vs) > 1 for vs in seen.values())


def subscripts_vs_subscripts(event):
    seen = defaultdict(set)
    for variable, _ in event:
        if isinstance(variable, CounterfactualVariable):
            for i in variable.interventions:
                seen[i.get_base()].add(i)
    return any(len(vs) > 1 for vs in seen.values())


def factor_inconsistent(event):
    return _any_variable_values_inconsistent_with_interventions(event) or _any_inconsistent_intervention_values(event)


# ---- Algorithm 4 (sigma-TR): Q[C_i] from the first domain k whose policy does not touch C_i and that has no selection node on C_i ------
def sigma_tr(district, domain_graphs, domain_data):
    validate_inputs_for_transport_district_intervening_on_parents(district=district, domain_graphs=domain_graphs, domain_data=domain_data)
    for k in range(len(domain_graphs)):
        if _no_intervention_variables_in_domain(district=district, interventions=domain_data[k][0]) and _no_transportability_nodes_in_domain(
            district=district, domain_graph=domain_graphs[k][0]
        ):
            g = domain_graphs[k][0]
            b = frozenset().union(*[g.get_district(v) for v in district])
            if any(b != frozenset(g.get_district(v)) for v in district):
                raise ValueError("the district is split in the domain graph")
            q_b = compute_c_factor(
                district=b,
                subgraph_variables=_remove_transportability_vertices(vertices=g.nodes()),
                subgraph_probability=domain_data[k][1],
                graph_topo=domain_graphs[k][1],
            )
            q = identify_district_variables(
                input_variables=frozenset(district), input_district=b, district_probability=q_b, graph=g, topo=domain_graphs[k][1]
            )
            if q is not None:
                return q
    return None


def no_policy_variable(district, interventions):
    return len(set(district).intersection(interventions)) == 0


def no_selection_node(district, domain_graph):
    return not any(transport_variable(v) in domain_graph.nodes() for v in district)


# ---- Algorithm 3 (ctfTR) --------------------------------------------------------------------------------------------------------------
def ctf_tr(outcomes, conditions, target_domain_graph, domain_graphs, domain_data):
    _validate_transport_conditional_counterfactual_query_input(
        outcomes=outcomes, conditions=conditions, target_domain_graph=target_domain_graph, domain_graphs=domain_graphs, domain_data=domain_data
    )
    (x_vars, y_vars, xy_vars, y_values, xy_names_to_values, xy_names, x_names) = _initialize_conditional_transportability_data_structures(
        outcomes=outcomes, conditions=conditions
    )
    # line 1: ancestral components A_1*, ... induced by Y* ∪ X* given X*
    components = get_ancestral_components(conditioned_variables=x_vars, root_variables=xy_vars, graph=target_domain_graph)
    # line 2: D* = union of the components that contain an outcome variable
    query, d_names = _transport_conditional_counterfactual_query_line_2(
        ancestral_components=components, outcome_variables=y_vars, outcome_variable_to_value_mappings=y_values, target_domain_graph=target_domain_graph
    )
    # line 3: Q = ctfTRu(D* = d*)
    r = transport_unconditional_counterfactual_query(
        event=query, target_domain_graph=target_domain_graph, domain_graphs=domain_graphs, domain_data=domain_data
    )
    if r is None:
        return None
    if r.event is None:
        return ConditionalCFTResult(expression=r.expression, event=r.event)
    # line 4
    return _transport_conditional_counterfactual_query_line_4(
        outcome_variable_ancestral_component_variable_names=d_names,
        outcome_and_conditioned_variable_names=xy_names,
        conditioned_variable_names=x_names,
        transported_unconditional_query_expression=r.expression,
        simplified_event=r.event,
        outcome_and_conditioned_variable_names_to_values=xy_names_to_values,
        outcomes=outcomes,
        conditions=conditions,
        domain_data=domain_data,
    )


def ctf_tr_structures(outcomes, conditions):
    x_vars = {variable for variable, _ in conditions}
    y_vars = {variable for variable, _ in outcomes}
    xy_vars = x_vars.union(y_vars)
    y_values = defaultdict(set)
    xy_names_to_values = defaultdict(set)
    for variable, value in outcomes:
        y_values[variable].update({value})
        xy_names_to_values[variable.get_base()].add(value)
    for variable, value in conditions:
        xy_names_to_values[variable.get_base()].add(value)
    return (
        x_vars, y_vars, xy_vars, dict(y_values), dict(xy_names_to_values), {v.get_base() for v in xy_vars}, {v.get_base() for v in x_vars},
    )


def ctf_tr_line_2(ancestral_components, outcome_variables, outcome_variable_to_value_mappings, target_domain_graph):
    valued = []
    d = set()
    for component in ancestral_components:
        if any(variable in outcome_variables for variable in component):
            d.update(set(component))
    for variable in d:
        if variable not in outcome_variable_to_value_mappings:
            valued.append((variable, None))
        else:
            for value in outcome_variable_to_value_mappings[variable]:
                valued.append((variable, value))
    return convert_to_counterfactual_factor_form(event=valued, graph=target_domain_graph), {variable.get_base() for variable in d}


def ctf_tr_line_4(
    outcome_variable_ancestral_component_variable_names, outcome_and_conditioned_variable_names, conditioned_variable_names,
    transported_unconditional_query_expression, simplified_event, outcome_and_conditioned_variable_names_to_values, outcomes, conditions, domain_data,
):
    # P(Y* = y* | X* = x*) = Σ_{d* ∖ (y* ∪ x*)} Q / Σ_{d* ∖ x*} Q
    d = outcome_variable_ancestral_component_variable_names
    q = transported_unconditional_query_expression
    numerator_range = d - outcome_and_conditioned_variable_names
    expression = Fraction(Sum.safe(q, numerator_range), Sum.safe(q, d - conditioned_variable_names))
    event = [(variable.get_base(), value) for variable, value in itt.chain(outcomes, conditions)]
    _validate_transport_conditional_counterfactual_query_line_4_output(
        simplified_event=simplified_event,
        outcome_and_conditioned_variable_names=outcome_and_conditioned_variable_names,
        outcome_and_conditioned_variable_names_to_values=outcome_and_conditioned_variable_names_to_values,
        outcome_ancestral_component_variables_with_no_values=numerator_range,
        result_expression=expression,
        result_event=event,
        domain_data=domain_data,
    )
    return ConditionalCFTResult(expression=expression, event=event)


# ---- public wrappers: a domain contributes (its selection diagram, its order or a topological order) and (its policy variables, its data)
def unconditional_wrapper(event, target_domain_graph, domains):
    domain_graphs = [(domain.graph, domain.ordering or domain.graph.topological_sort()) for domain in domains]
    domain_data = [(domain.policy_variables, domain.population) for domain in domains]
    return transport_unconditional_counterfactual_query(
        event=_event_from_counterfactuals(event), target_domain_graph=target_domain_graph, domain_graphs=domain_graphs, domain_data=domain_data
    )


def conditional_wrapper(outcomes, conditions, target_domain_graph, domains):
    domain_graphs = [(domain.graph, domain.ordering or domain.graph.topological_sort()) for domain in domains]
    domain_data = [(domain.policy_variables, domain.population) for domain in domains]
    return transport_conditional_counterfactual_query(
        outcomes=_event_from_counterfactuals_strict(outcomes),
        conditions=_event_from_counterfactuals_strict(conditions),
        target_domain_graph=target_domain_graph,
        domain_graphs=domain_graphs,
        domain_data=domain_data,
    )


def event_of(variables):
    if isinstance(variables, Variable):
        variables = [variables]
    rv = []
    for variable in variables:
        if variable.star is not None:
            value = Intervention(name=variable.name, star=variable.star)
        else:
            value = None
        rv.append((_event_base(variable), value))
    return rv


def event_of_strict(variables):
    if isinstance(variables, Variable):
        variables = [variables]
    rv = []
    for variable in variables:
        if variable.star is not None:
            value = Intervention(name=variable.name, star=variable.star)
        else:
            raise TypeError
        rv.append((_event_base(variable), value))
    return rv


def event_base(variable: Variable):
    if isinstance(variable, CounterfactualVariable):
        return CounterfactualVariable(name=variable.name, star=None, interventions=variable.interventions)
    else:
        return variable.get_base()
