"""d-separation in an acyclic directed mixed graph by the moralisation criterion (Lauritzen et al. 1990; Richardson 2003 for bidirected edges
read as latent common parents): ancestral graph of {a, b} + C -> latent parents -> moral graph -> delete C -> a, b disconnected.
PARSED and compared as terms (graph-building effects by their denotation); never imported or executed."""

import networkx as nx

from y0.dsl import Variable
from y0.struct import DSeparationJudgement


def d_separated(graph, a, b, conditions=None):
    if conditions is None:
        conditions = set()
    conditions = set(conditions)
    if not isinstance(a, Variable):
        raise TypeError
    if not isinstance(b, Variable):
        raise TypeError
    if not all(isinstance(c, Variable) for c in conditions):
        raise TypeError
    if a not in graph:
        raise KeyError
    if b not in graph:
        raise KeyError
    if {condition for condition in conditions if condition not in graph}:
        raise KeyError
    ancestral_graph = graph.subgraph(graph.ancestors_inclusive({a, b}.union(conditions)))
    latent_dag = nx.DiGraph()
    latent_dag.add_nodes_from(ancestral_graph.nodes())
    latent_dag.add_edges_from(ancestral_graph.directed.edges())
    for u, v in ancestral_graph.undirected.edges():
        latent_dag.add_edge(("latent", u, v), u)
        latent_dag.add_edge(("latent", u, v), v)
    moral = nx.moral_graph(latent_dag)
    evidence_graph = moral.subgraph(set(moral.nodes) - set(conditions))
    separated = not nx.has_path(evidence_graph, a, b)
    return DSeparationJudgement.create(left=a, right=b, conditions=conditions, separated=separated)


# ---- the judgement record: the pair in name order, the conditions as a name-ordered tuple without repetition
def canonical_judgement(left, right, conditions=None, *, separated=True):
    left, right = sorted([left, right], key=str)
    if conditions is None:
        conditions = ()
    conditions = tuple(sorted(set(conditions), key=str))
    return DSeparationJudgement(separated, left, right, conditions)
