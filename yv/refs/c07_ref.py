"""ID* (Shpitser & Pearl 2008, Figure 3) and its line helpers as plain Python over the repository's own sub-routines; the counterfactual-graph
construction is C18's.  PARSED and compared as terms; never imported or executed.

Note on line 6: the sub-events are subscripted by the Markov pillow of the district as the repository does it (bare pillow variables); that the
subscripts should carry the event's VALUES for pillow variables the event assigns is the recorded finding R7.4, checked by its own rule."""

import itertools as itt

from y0.algorithm.identify.cg import is_not_self_intervened, make_counterfactual_graph
from y0.algorithm.identify.id_star import (
    ConflictUnidentifiable,
    _get_node_event,
    get_cf_interventions,
    get_conflicts,
    get_events_of_district,
    get_events_of_each_district,
    get_evidence,
    get_free_variables,
    id_star,
    id_star_line_6,
    id_star_line_9,
    is_redundant_counterfactual,
    remove_event_tautologies,
    violates_axiom_of_effectiveness,
)
from y0.dsl import CounterfactualVariable, One, Probability, Product, Sum, Zero


def id_star_algorithm(graph, event, _number_recursions=0):
    # line 1
    if not event:
        return One()
    # line 2: a counterfactual Y_{..y..} = y' with y' != y
    if violates_axiom_of_effectiveness(event):
        return Zero()
    # line 3: tautologies Y_{..y..} = y are removed
    reduced = remove_event_tautologies(event)
    if reduced != event:
        return id_star(graph, reduced, _number_recursions=_number_recursions + 1)
    # line 4 / 5
    cf_graph, new_event = make_counterfactual_graph(graph, event)
    if new_event is None:
        return Zero()
    free = {node for node in cf_graph.nodes() if is_not_self_intervened(node)}
    cf_subgraph = cf_graph.subgraph(free)
    # line 6
    if not cf_subgraph.is_connected():
        summand, events_of_each_district = id_star_line_6(cf_graph, new_event)
        if len(events_of_each_district) <= 1:
            raise RuntimeError
        return Sum.safe(
            Product.safe(id_star(graph, e, _number_recursions=_number_recursions + 1) for e in events_of_each_district.values()),
            summand,
        )
    # line 8
    conflicts = get_conflicts(cf_subgraph, new_event)
    if conflicts:
        raise ConflictUnidentifiable(cf_subgraph, new_event, conflicts)
    # line 9
    return id_star_line_9(cf_subgraph)


def free_variables(cf_graph, event):
    return {v.get_base() for v in cf_graph.nodes() if is_not_self_intervened(v)} - {e.get_base() for e in event}


def axiom_of_effectiveness_violated(event):
    return any(
        i.get_base() == value.get_base() and value.star != i.star
        for variable, value in event.items()
        if isinstance(variable, CounterfactualVariable)
        for i in variable.interventions
    )


def without_tautologies(event):
    return {variable: value for variable, value in event.items() if not is_redundant_counterfactual(variable, value)}


def redundant(variable, value):
    if not isinstance(variable, CounterfactualVariable):
        return False
    return any(i.get_base() == value.get_base() and value.star == i.star for i in variable.interventions)


def line_6(cf_graph, event):
    return get_free_variables(cf_graph, event), get_events_of_each_district(cf_graph, event)


def events_of_each_district(graph, event):
    free = {node for node in graph.nodes() if is_not_self_intervened(node)}
    return {district: get_events_of_district(graph, district, event) for district in graph.subgraph(free).districts()}


def events_of_district(graph, district, event):
    pillow = graph.get_markov_pillow(district)
    if not pillow:
        return {node.get_base(): _get_node_event(node, event) for node in district}
    return {node.get_base().intervene(pillow): _get_node_event(node, event) for node in district}


def node_event(node, event):
    if node in event:
        return event[node]
    return -node.get_base()


def conflicts_of(cf_graph, event):
    return [
        (i, e) for i, e in itt.product(get_cf_interventions(cf_graph.nodes()), get_evidence(event))
        if i.name == e.name and i.star != e.star
    ]


def cf_interventions(nodes):
    return {i for node in nodes if isinstance(node, CounterfactualVariable) for i in node.interventions}


def evidence(event):
    return set(event.values()) | get_cf_interventions(event)


def line_9(cf_graph):
    # one intervention set for ALL base variables: the estimand is a single-world interventional term
    interventions = get_cf_interventions(cf_graph.nodes())
    bases = [node.get_base() for node in cf_graph.nodes()]
    if len(interventions) > 0:
        return Probability.safe(bases, interventions=interventions)
    else:
        return Probability.safe(bases)
