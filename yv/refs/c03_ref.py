"""Shpitser & Pearl 2006/2008: IDC -- conditions that pass rule 2 of the do-calculus become actions, then ID on the joint and normalisation.
PARSED and compared as terms; never imported or executed."""

from y0.algorithm.conditional_independencies import are_d_separated
from y0.algorithm.identify.id_c import idc, rule_2_of_do_calculus_applies
from y0.algorithm.identify.id_std import identify
from y0.algorithm.identify.utils import Identification, Query


# ---- rule 2: (Y  _||_  z | X, Z - {z}) in G with the edges into X and the edges out of z removed -- for every outcome
def rule_2(identification, condition) -> bool:
    graph = identification.graph
    treatments = identification.treatments
    given = treatments | (identification.conditions - {condition})
    mutilated = graph.remove_in_edges(treatments).remove_out_edges(condition)
    return all(are_d_separated(mutilated, outcome, condition, conditions=given) for outcome in identification.outcomes)


def idc_algorithm(identification):
    # the first condition that passes rule 2 is exchanged for an action: (Y, X + z, Z - z) on the same graph and distribution
    for condition in identification.conditions:
        if rule_2_of_do_calculus_applies(identification=identification, condition=condition):
            return idc(Identification(
                query=Query(
                    outcomes=identification.outcomes,
                    treatments=identification.treatments | {condition},
                    conditions=identification.conditions - {condition},
                ),
                graph=identification.graph,
                estimand=identification.estimand,
            ))
    # no condition can be exchanged: ID on (Y + Z, X), divided by its sum over Y
    joint = identify(Identification(
        query=Query(outcomes=identification.outcomes | identification.conditions, treatments=identification.treatments, conditions=None),
        graph=identification.graph,
        estimand=identification.estimand,
    ))
    return joint.normalize_marginalize(identification.outcomes)
