"""Shpitser & Pearl 2006, Figure 3: the ID algorithm, line by line, as plain Python over the graph operations (C14) and the DSL (C13).
PARSED and compared as terms; never imported or executed."""

from y0.algorithm.identify.id_std import identify
from y0.algorithm.identify.utils import Identification, Unidentifiable
from y0.dsl import P, Probability, Product, Sum


# ---- P(v | the variables before v in the order), from the distribution currently in hand
def conditional_of(estimand, child, ordering):
    joint = estimand
    while isinstance(joint, Sum):
        joint = joint.expression
    if isinstance(joint, Probability) and not joint.parents:
        # (a marginal of) the observational joint: the conditional is read off directly
        return P(child | ordering[: ordering.index(child)])
    index = ordering.index(child)
    return Sum.safe(estimand, ordering[index + 1:]) / Sum.safe(estimand, ordering[index:])


def id_algorithm(identification):
    graph = identification.graph
    treatments = identification.treatments
    outcomes = identification.outcomes
    estimand = identification.estimand
    vertices = set(graph.nodes())
    # line 1: no treatments -- marginalise the distribution in hand down to the outcomes
    if not treatments:
        return Sum.safe(expression=estimand, ranges=vertices - outcomes)
    # line 2: restrict to the ancestors of the outcomes
    ancestors = graph.ancestors_inclusive(outcomes)
    if vertices - ancestors:
        return identify(Identification.from_parts(
            outcomes=outcomes,
            treatments=treatments & ancestors,
            estimand=Sum.safe(expression=estimand, ranges=vertices - ancestors),
            graph=graph.subgraph(ancestors),
        ))
    # line 3: add treatments that cannot affect the outcomes once X is fixed
    no_effect = graph.get_no_effect_on_outcomes(treatments, outcomes)
    if no_effect:
        return identify(identification.with_treatments(no_effect))
    # line 4: the graph without the treatments falls into several districts
    without_treatments = graph.remove_nodes_from(treatments)
    if not without_treatments.is_connected():
        return Sum.safe(
            expression=Product.safe([
                identify(Identification.from_parts(outcomes=set(district), treatments=vertices - district, estimand=estimand, graph=graph))
                for district in without_treatments.districts()
            ]),
            ranges=vertices - (outcomes | treatments),
        )
    # line 5: the whole graph is one district -- a hedge
    if graph.is_connected():
        raise Unidentifiable(graph.nodes(), without_treatments.districts())
    districts = without_treatments.districts()
    if len(districts) != 1:
        raise RuntimeError
    s = districts.pop()
    # line 6: S is a district of G itself
    if s in graph.districts():
        order = list(graph.topological_sort())
        return Sum.safe(expression=Product.safe([conditional_of(estimand, v, order) for v in s]), ranges=s - outcomes)
    # line 7: S lies strictly inside a district S' of G
    for district in graph.districts():
        if s < district:
            order = list(graph.topological_sort())
            return identify(Identification.from_parts(
                outcomes=outcomes,
                treatments=treatments & district,
                estimand=Product.safe([conditional_of(estimand, v, order) for v in district]),
                graph=graph.subgraph(district),
            ))
    raise ValueError("Could not identify suitable district")
