"""Tian & Pearl 2003: IDENTIFY (Figure 7; Correa et al. 2022, Algorithm 5) and Lemmas 1, 3, 4 as plain Python over the DSL.
PARSED and compared as terms; never imported or executed."""

from y0.algorithm.tian_id import (
    compute_ancestral_set_q_value,
    compute_c_factor,
    compute_c_factor_conditioning_on_topological_predecessors,
    compute_c_factor_marginalizing_over_topological_successors,
    compute_q_value_of_variables_with_low_topological_ordering_indices,
    identify_district_variables,
)
from y0.dsl import Distribution, Expression, Fraction, One, P, PopulationProbability, Probability, Product, Sum


# ---- Lemma 3 (Eq. 69): Q[A] = Σ_{T ∖ A} Q[T], the summed variables listed in the order of the graph
def lemma_3(ancestral_set, subgraph_variables, subgraph_probability, graph_topo):
    return Sum.safe(subgraph_probability, [v for v in graph_topo if v in subgraph_variables - ancestral_set])


# ---- Eq. 72: Q[H^(i)] = Σ_{variables after v_i in the order} Q[H];  Q[H^(0)] = 1
def q_of_prefix(vertex, graph_probability, topo):
    if vertex is None:
        return One()
    if vertex not in set(topo):
        raise KeyError(vertex)
    return Sum.safe(graph_probability, topo[topo.index(vertex) + 1:])


# ---- Lemma 4 (Eq. 71): Q[H_j] = Π_{v_i ∈ H_j} Q[H^(i)] / Q[H^(i-1)], the first vertex of the order without a denominator
def lemma_4(district, graph_probability, topo):
    return Product.safe(
        [
            (
                compute_q_value_of_variables_with_low_topological_ordering_indices(vertex=topo[topo.index(v)], graph_probability=graph_probability, topo=topo)
                if topo.index(v) == 0
                else Fraction(
                    compute_q_value_of_variables_with_low_topological_ordering_indices(vertex=topo[topo.index(v)], graph_probability=graph_probability, topo=topo),
                    compute_q_value_of_variables_with_low_topological_ordering_indices(vertex=topo[topo.index(v) - 1], graph_probability=graph_probability, topo=topo),
                )
            )
            for v in district
        ]
    )


# ---- Lemma 1 (Eq. 37): Q_j = Π_{v_i ∈ S_j} P(v_i | v^(i-1)), keeping what Q was already conditioned on and its population
def lemma_1(district, graph_probability, topo):
    if len(district) == 0 or len(set(topo)) == 0:
        raise TypeError
    if any(v not in set(topo) for v in district):
        raise KeyError
    if isinstance(graph_probability, PopulationProbability):
        return Product.safe(
            [
                PopulationProbability(
                    population=graph_probability.population,
                    distribution=Distribution(children=(v,), parents=tuple(set(graph_probability.parents).union(topo[: topo.index(v)]))),
                )
                for v in district
            ]
        )
    return Product.safe([P(v | set(graph_probability.parents).union(topo[: topo.index(v)])) for v in district])


# ---- which lemma: Lemma 4 for a compound Q, Lemma 1 for a plain probability; the order is the graph's, restricted to the sub-graph
def c_factor(district, subgraph_variables, subgraph_probability, graph_topo):
    order = [v for v in graph_topo if v in subgraph_variables]
    if isinstance(subgraph_probability, Fraction | Product | Sum):
        return compute_c_factor_marginalizing_over_topological_successors(district=district, graph_probability=subgraph_probability, topo=order)
    if not isinstance(subgraph_probability, Probability):
        raise TypeError
    return compute_c_factor_conditioning_on_topological_predecessors(district=district, graph_probability=subgraph_probability, topo=order)


# ---- IDENTIFY(C, T, Q[T])
def identify(input_variables, input_district, district_probability, graph, topo):
    if not input_variables.intersection(input_district) == input_variables:
        raise KeyError
    if not input_district.intersection(set(topo)) == input_district:
        raise KeyError
    g_t = graph.subgraph(vertices=input_district)
    if len(g_t.districts()) > 1:
        raise TypeError
    if not isinstance(district_probability, Sum | Product | Fraction | Probability):
        raise TypeError
    a = frozenset(g_t.ancestors_inclusive(input_variables))
    ordered_a = [v for v in topo if v in a]
    if a == input_variables:
        return compute_ancestral_set_q_value(ancestral_set=a, subgraph_variables=input_district, subgraph_probability=district_probability, graph_topo=topo)
    if a == input_district:
        return None
    if not (input_variables.issubset(a) and a.issubset(input_district)):
        raise NotImplementedError
    districts = list(graph.subgraph(vertices=ordered_a).districts())
    t_prime = districts[[input_variables.issubset(d) for d in districts].index(True)]
    if isinstance(district_probability, Fraction | Product | Sum):
        q_a = compute_ancestral_set_q_value(ancestral_set=a, subgraph_variables=input_district, subgraph_probability=district_probability, graph_topo=topo)
    elif isinstance(district_probability, PopulationProbability):
        q_a = PopulationProbability(population=district_probability.population, distribution=ordered_a[0].joint(ordered_a[1:]) | district_probability.parents)
    else:
        q_a = P(ordered_a[0].joint(ordered_a[1:]) | district_probability.parents)
    return identify_district_variables(
        input_variables=input_variables,
        input_district=t_prime,
        district_probability=compute_c_factor(district=t_prime, subgraph_variables=a, subgraph_probability=q_a, graph_topo=topo),
        graph=graph,
        topo=topo,
    )
