"""Enumeration of the conditional independencies implied by a graph, as plain Python over the d-separation test.
PARSED and compared as terms; never imported or executed."""

from itertools import chain, combinations, groupby

from y0.algorithm.conditional_independencies import are_d_separated
from y0.util.combinatorics import powerset


def implied_separations(graph, max_conditions=None, verbose=False, return_all=False):
    # every unordered pair once; conditioning sets from the remaining nodes by increasing size, none larger than max_conditions;
    # only separations are reported, and (unless all are wanted) only the first one found for a pair
    vertices = set(graph.nodes())
    for a, b in combinations(vertices, 2):
        for conditions in powerset(vertices - {a, b}, stop=None if max_conditions is None else max_conditions + 1):
            judgement = are_d_separated(graph, a, b, conditions=conditions)
            if judgement.separated:
                yield judgement
                if not return_all:
                    break


def subsets_by_size(iterable, start=0, stop=None, reverse=False, use_tqdm=False, tqdm_kwargs=None):
    # all subsets of size start, start+1, ..., stop-1 (stop exclusive; without it every size up to the whole set), in that order
    s = list(iterable)
    if stop is None:
        stop = len(s) + 1
    if reverse:
        return chain.from_iterable(combinations(s, len(s) - r) for r in range(start, stop))
    return chain.from_iterable(combinations(s, r) for r in range(start, stop))


def one_per_pair(judgements, policy=None):
    # one judgement per (left, right): the minimum of its group under the policy (by default: fewest conditions first)
    if policy is None:
        policy = fewest_conditions_first
    return {min(group, key=policy) for _key, group in groupby(sorted(judgements, key=pair_key), pair_key)}


def pair_key(judgement):
    return judgement.left, judgement.right


def fewest_conditions_first(judgement):
    return len(judgement.conditions), ",".join(c.name for c in judgement.conditions)
