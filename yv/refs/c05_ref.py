"""Tikka & Karvanen 2019 (surrogate outcomes) / Correa & Bareinboim: the helper steps of TRSO as plain Python over the graph operations (C14), the
separation test (C04) and the DSL (C13).  PARSED and compared as terms; never imported or executed."""

from copy import deepcopy

from y0.algorithm.conditional_independencies import are_d_separated
from y0.algorithm.transport import (
    TARGET_DOMAIN as _TARGET_DOMAIN,
    TRSOQuery,
    _upgrade_variables,
    all_transports_d_separated,
    get_regular_nodes,
    get_transport_nodes,
    is_transport_node,
    activate_domain_and_interventions,
    trso,
    trso_line1,
    trso_line2,
    trso_line3,
    trso_line4,
    trso_line6,
    trso_line9,
    trso_line10,
)
from y0.dsl import Distribution, Fraction, One, PopulationProbability, Probability, Product, Sum, Zero
from y0.mutate.canonicalize_expr import canonicalize

TARGET_DOMAIN = _TARGET_DOMAIN


# ---- where a selection (transport) node points: (De(Z_i) - W_i)  +  (C(W_i) - An(W_i) in the graph with the edges into Z_i removed)
def nodes_to_transport(*, surrogate_interventions, surrogate_outcomes, graph):
    surrogate_interventions = set(_upgrade_variables(surrogate_interventions))
    surrogate_outcomes = set(_upgrade_variables(surrogate_outcomes))
    districts_of_outcomes = set()
    for component in graph.districts():
        if surrogate_outcomes.intersection(component):
            districts_of_outcomes.update(component)
    ancestors = graph.get_intervened_ancestors(surrogate_interventions, surrogate_outcomes)
    descendants = graph.descendants_inclusive(surrogate_interventions)
    return (descendants - surrogate_outcomes).union(districts_of_outcomes - ancestors)


# ---- line 6 gate: every selection node is d-separated from every outcome given X in the graph with the edges into X removed
def transports_separated(graph, target_interventions, target_outcomes) -> bool:
    mutilated = graph.remove_in_edges(target_interventions)
    return all(
        are_d_separated(mutilated, t, outcome, conditions=target_interventions)
        for t in get_transport_nodes(graph)
        if t in mutilated
        for outcome in target_outcomes
    )


# ---- line 6 for one source domain: usable iff it has experiments on some of X and the gate holds; then X - Z_i remains, the domain is
# ---- activated with its own diagram minus the experimented variables, and Z_i ∩ X are the active interventions
def line_6_for_domain(query, domain, graph):
    experiments = query.surrogate_interventions[domain]
    usable = experiments.intersection(query.target_interventions)
    if not usable:
        return None
    if not all_transports_d_separated(graph, target_interventions=query.target_interventions, target_outcomes=query.target_outcomes):
        return None
    new_query = deepcopy(query)
    new_query.target_interventions = query.target_interventions - experiments
    new_query.domain = domain
    new_query.graphs[new_query.domain] = graph.remove_nodes_from(usable)
    new_query.active_interventions = usable
    return new_query


# ---- line 2: restrict to the ancestors of the outcomes: interventions among them, every domain's diagram cut down to ITS OWN ancestors of the
# ---- outcomes, and the distribution in hand marginalised over the non-ancestors among the regular nodes of the CURRENT domain's diagram
def line_2(query, outcomes_ancestors):
    new_query = deepcopy(query)
    new_query.target_interventions.intersection_update(outcomes_ancestors)
    for domain, graph in query.graphs.items():
        new_query.graphs[domain] = graph.subgraph(graph.ancestors_inclusive(query.target_outcomes))
    new_query.expression = Sum.safe(query.expression, get_regular_nodes(query.graphs[query.domain]) - outcomes_ancestors, simplify=True)
    if isinstance(new_query.expression, Probability):
        if not isinstance(new_query.expression, PopulationProbability):
            raise TypeError
        new_query.expression = PopulationProbability(population=new_query.domain, distribution=Distribution(children=new_query.expression.children))
    return new_query


# ---- line 3: more interventions, nothing else
def line_3(query, additional_interventions):
    new_query = deepcopy(query)
    new_query.target_interventions.update(additional_interventions)
    return new_query


# ---- line 4: one sub-problem per district of G - X: (outcomes = the district, interventions = every other regular node)
def line_4(query, components):
    graph = query.graphs[query.domain]
    rv = {}
    for component in components:
        new_query = deepcopy(query)
        new_query.target_outcomes = set(component)
        new_query.target_interventions = get_regular_nodes(graph) - component
        rv[component] = new_query
    return rv


# ---- line 9: the c-factor of the district from the distribution in hand, by consecutive marginals in topological order (selection nodes
# ---- are not variables of the distribution), summed over the district's non-outcomes
def line_9(query, district):
    if isinstance(query.expression, Zero):
        raise RuntimeError
    ordering = [node for node in query.graphs[query.domain].topological_sort() if not is_transport_node(node)]
    ordering_set = set(ordering)
    my_product = One()
    for node in district:
        i = ordering.index(node)
        pre, post = ordering[:i], ordering[: i + 1]
        numerator = Sum.safe(query.expression, ordering_set - set(post))
        denominator = Sum.safe(query.expression, ordering_set - set(pre))
        my_product *= numerator / denominator
    my_product = my_product.simplify()
    return Sum.safe(my_product, district - query.target_outcomes)


# ---- line 10: continue inside the enclosing district S': X ∩ S', the product of P(v | predecessors of v) in the active domain, G[S'],
# ---- with the updated table of experiments
def line_10(query, district, new_surrogate_interventions):
    ordering = [node for node in query.graphs[query.domain].topological_sort() if not is_transport_node(node)]
    expressions = []
    for node in district:
        i = ordering.index(node)
        expressions.append(PopulationProbability(population=query.domain, distribution=Distribution.safe(node | set(ordering[:i]))))
    new_query = deepcopy(query)
    new_query.target_interventions = query.target_interventions.intersection(district)
    new_query.expression = canonicalize(Product.safe(expressions))
    new_query.graphs[query.domain] = query.graphs[query.domain].subgraph(district)
    new_query.surrogate_interventions = new_surrogate_interventions
    return new_query


# ---- line 6 over all source domains: the target domain itself is skipped; every usable domain gives one sub-query
def line_6(query):
    expressions = {}
    for domain, graph in query.graphs.items():
        if domain == TARGET_DOMAIN:
            continue
        new_query = line_6_for_domain(query, domain, graph)
        if new_query is not None:
            expressions[domain] = new_query
    return expressions


def canon_or_none(expression):
    if expression is None:
        return None
    return canonicalize(expression)


def pillow_has_transport(graph, district) -> bool:
    return any(is_transport_node(node) for node in graph.get_markov_pillow(district))


# ---- TRSO (Tikka & Karvanen 2019, Algorithm 1 as adapted by the library: lines 1-4, 6/7, 8/11, 9, 10), the order of the tests included
def trso_algorithm(query):
    graph = query.graphs[query.domain]
    # line 1
    if not query.target_interventions:
        return canonicalize(trso_line1(query.target_outcomes, query.expression, graph))
    # line 2
    outcome_ancestors = graph.ancestors_inclusive(query.target_outcomes)
    if get_regular_nodes(graph) - outcome_ancestors:
        return canon_or_none(trso(trso_line2(query, outcome_ancestors)))
    # line 3
    additional_interventions = graph.get_no_effect_on_outcomes(query.target_interventions, query.target_outcomes)
    if additional_interventions:
        return canon_or_none(trso(trso_line3(query, additional_interventions)))
    # line 4
    districts_without_interventions = graph.remove_nodes_from(query.target_interventions).districts()
    if len(districts_without_interventions) > 1:
        terms = []
        for subquery in trso_line4(query, districts_without_interventions).values():
            term = trso(subquery)
            if term is None:
                return None
            terms.append(term)
        return canonicalize(Sum.safe(canonicalize(Product.safe(terms)), get_regular_nodes(graph) - query.target_interventions.union(query.target_outcomes)))
    # lines 6 and 7: only while no experiment is active
    if not query.active_interventions and query.surrogate_interventions:
        expressions = {}
        for domain, subquery in trso_line6(query).items():
            expression = trso(subquery)
            if expression is None:
                continue
            expression = activate_domain_and_interventions(expression, subquery.active_interventions, domain)
            if expression is not None:
                expressions[domain] = expression
        if len(expressions) == 1:
            return canonicalize(next(iter(expressions.values())))
        elif len(expressions) > 1:
            return canonicalize(next(iter(expressions.values())))
    # lines 8 / 11
    districts = graph.districts()
    if len(districts) == 0:
        return None
    elif len(districts) == 1:
        return None
    if len(districts_without_interventions) == 0:
        raise RuntimeError
    district_without_interventions = districts_without_interventions.pop()
    # line 9
    if district_without_interventions in districts:
        return canonicalize(trso_line9(query, set(district_without_interventions)))
    # line 10
    target_districts = [district for district in districts if district_without_interventions.issubset(district)]
    if len(target_districts) != 1:
        raise RuntimeError
    target_district = target_districts.pop()
    if len(query.active_interventions) == 0:
        new_surrogate_interventions = {}
    elif pillow_has_transport(graph, target_district):
        return None
    else:
        new_surrogate_interventions = query.surrogate_interventions
    return canon_or_none(trso(trso_line10(query, set(target_district), new_surrogate_interventions)))
