"""Expansion / contraction identities of probability expressions (chain rule, conditional as a ratio, Bayes) and the structural recursion
of the expression visitor, as plain Python over the DSL's constructors.  PARSED and compared as terms; never imported or executed."""

from operator import attrgetter

from y0.dsl import CounterfactualVariable, Distribution, Fraction, Probability, Product, QFactor, Sum, _get_free_variables, ensure_ordering


# ---- chain rule: P(c_1..c_n | pa) = Π_i P(c_i | c_{i+1}..c_n, pa), children taken in the given order or in the requested ordering
def chain(p, reorder=True, ordering=None):
    if reorder:
        order = ensure_ordering(p, ordering=ordering)
        if any(v not in order for v in p.children):
            raise ValueError
        cs = tuple(v for v in order if v in p.children)
    else:
        cs = p.children
    return Product.safe([p._new(Distribution(children=(cs[i],)).given(cs[i + 1:] + p.parents)) for i in range(len(cs))])


# ---- P(C | Pa) = P(C, Pa) / P(Pa), same kind of probability; nothing to expand without parents
def as_fraction(p):
    if not p.parents:
        return p
    return Fraction(p.uncondition(), p._new(Distribution.safe(p.parents)))


# ---- P(C | Pa) = P(C, Pa) / Σ_C P(C, Pa)
def bayes(p):
    if not p.parents:
        return p
    return p.uncondition().normalize_marginalize(p.children)


# ---- the joint over children and parents
def joint_of(self):
    return Distribution(children=(*self.children, *self.parents), parents=())


# ---- P(N)/P(D) with D ⊆ N, both unconditioned and of the same kind  =  P(N ∖ D | D)
def contracted(expression):
    if not (
        isinstance(expression, Fraction)
        and isinstance(expression.numerator, Probability)
        and isinstance(expression.denominator, Probability)
        and not expression.numerator.parents
        and not expression.denominator.parents
        and set(expression.denominator.children).issubset(expression.numerator.children)
        and expression.numerator._new(expression.denominator.distribution) == expression.denominator
    ):
        return expression
    return expression.numerator._new(
        Distribution(
            children=tuple(sorted(set(expression.numerator.children) - set(expression.denominator.children), key=attrgetter("name"))),
            parents=tuple(sorted(set(expression.numerator.children) & set(expression.denominator.children), key=attrgetter("name"))),
        )
    )


# ---- the visitor: each node kind is rebuilt from its own parts, every part visited exactly in its own role
def visit(self, expression):
    if isinstance(expression, Sum):
        return self.apply_sum(expression)
    if isinstance(expression, Product):
        return self.apply_product(expression)
    if isinstance(expression, Fraction):
        return self.apply_fraction(expression)
    if isinstance(expression, Probability):
        return self.apply_probability(expression)
    if isinstance(expression, QFactor):
        return self.apply_q(expression)
    return expression


def visit_sum(self, expression):
    return Sum(expression=self.apply_expression(expression.expression), ranges=expression.ranges)


def visit_product(self, expression):
    return Product.safe([self.apply_expression(e) for e in expression.expressions])


def visit_fraction(self, expression):
    return Fraction(numerator=self.apply_expression(expression.numerator), denominator=self.apply_expression(expression.denominator))


def free_variables(expression):
    # the variables an expression is a function of: a sum binds its ranges; products and fractions have the free variables of their parts;
    # a leaf has the variables it mentions
    if isinstance(expression, Sum):
        return _get_free_variables(expression.expression) - set(expression.ranges)
    elif isinstance(expression, Product):
        return {v for e in expression.expressions for v in _get_free_variables(e)}
    elif isinstance(expression, Fraction):
        return _get_free_variables(expression.numerator) | _get_free_variables(expression.denominator)
    else:
        return expression.get_variables()


def ranges_subscript_children(ranges, children):
    # Sum.simplify's no-capture test: SOME intervention of SOME counterfactual child carries the name of a summed variable -- one such subscript
    # is enough for the summed variable to be left behind free (Sum[B](P(B, D @ (B, C))) is not P(D @ (B, C)))
    names = {variable.name for variable in ranges}
    return any(intervention.name in names for child in children if isinstance(child, CounterfactualVariable) for intervention in child.interventions)
