"""Published construction behind C18 (Shpitser & Pearl 2008, make-cg with Lemmas 24/25; parallel-worlds graph), as plain Python.
PARSED and compared as terms by the checker (loops are compared through the 'state after one generic iteration' abstraction applied to
both sides); never imported or executed."""

from itertools import combinations

from y0.algorithm.identify.cg import (
    has_same_confounders,
    has_same_function,
    is_not_self_intervened,
    is_pw_equivalent,
    nodes_have_same_domain_of_values,
    parents_attain_same_values,
    value_of_self_intervention,
    nodes_attain_same_value,
    World,
    _variable_sort_key,
    _get_directed_edges,
    extract_interventions,
    is_inconsistent,
    lemma_24_holds,
    make_parallel_worlds_graph,
    merge_pw,
    node_not_an_intervention_in_world,
    stitch_counterfactual_and_doppleganger_neighbors,
    stitch_counterfactual_and_dopplegangers,
    stitch_counterfactual_and_neighbors,
    stitch_factual_and_doppleganger_neighbors,
    stitch_factual_and_dopplegangers,
    update_event,
)
from y0.dsl import CounterfactualVariable, Intervention, Variable, _sort_interventions
from y0.graph import NxMixedGraph


# ---- make-cg: visit the nodes of G in topological order; for each, try to merge it with its copy in every world, then the copies of
# ---- every unordered pair of worlds; after each merge the relabelled event is checked for a conflict and relabelled -----------------
def counterfactual_graph(graph, event):
    worlds = extract_interventions(event)
    current = make_parallel_worlds_graph(graph, worlds)
    current_event = dict(event)
    for node in graph.topological_sort():
        for world in worlds:
            twin = node @ world
            if lemma_24_holds(current, current_event, node, twin):
                current, kept, dropped = merge_pw(current, node, twin)
                if is_inconsistent(current_event, kept, dropped):
                    return current, None
                current_event = update_event(current_event, kept, dropped)
        if len(worlds) > 1:
            for world_1, world_2 in combinations(worlds, 2):
                a = node @ world_1
                b = node @ world_2
                if lemma_24_holds(current, current_event, a, b):
                    current, kept, dropped = merge_pw(current, a, b)
                    if is_inconsistent(current_event, kept, dropped):
                        return current, None
                    current_event = update_event(current_event, kept, dropped)
    return current.subgraph(current.ancestors_inclusive(current_event)), current_event


# ---- parallel-worlds graph: one copy of G per world (edges into intervened nodes cut), all copies sharing the latent confounders ------
def parallel_worlds_graph(graph, worlds):
    undirected = set()
    undirected |= stitch_counterfactual_and_neighbors(graph, worlds)
    undirected |= stitch_factual_and_dopplegangers(graph, worlds)
    undirected |= stitch_factual_and_doppleganger_neighbors(graph, worlds)
    if len(worlds) > 1:
        undirected |= stitch_counterfactual_and_dopplegangers(graph, worlds)
        undirected |= stitch_counterfactual_and_doppleganger_neighbors(graph, worlds)
    nodes = [*graph.nodes(), *(node @ world for world in worlds for node in graph.nodes())]
    directed = [*graph.directed.edges(), *_get_directed_edges(graph, worlds)]
    return NxMixedGraph.from_edges(nodes=nodes, directed=directed, undirected=set(graph.undirected.edges()) | undirected)


def flipped(pairs):
    return {(b, a) for a, b in pairs}


def worlds_of(variables):
    return {World(variable.interventions) for variable in variables if isinstance(variable, CounterfactualVariable)}


def directed_copies(graph, worlds):
    return {(u @ world, v @ world) for world in worlds for u, v in graph.directed.edges() if node_not_an_intervention_in_world(world, v)}


def factual_and_dopplegangers(graph, worlds):
    return {(u, u @ world) for world in worlds for u in graph.nodes() if node_not_an_intervention_in_world(world, u)}


def factual_and_doppleganger_neighbors(graph, worlds):
    return {
        (u, v @ world) for world in worlds for u in graph.nodes() for v in graph.undirected.neighbors(u)
        if node_not_an_intervention_in_world(world, v)
    }


def counterfactual_and_dopplegangers(graph, worlds):
    # EVERY unordered pair of worlds
    return flipped({
        (u @ world_1, u @ world_2) for world_1, world_2 in combinations(worlds, 2) for u in graph.nodes()
        if node_not_an_intervention_in_world(world_1, u) and node_not_an_intervention_in_world(world_2, u)
    })


def counterfactual_and_doppleganger_neighbors(graph, worlds):
    return flipped({
        (u @ world_1, v @ world_2) for world_1, world_2 in combinations(worlds, 2) for u in graph.nodes() for v in graph.undirected.neighbors(u)
        if node_not_an_intervention_in_world(world_1, u) and node_not_an_intervention_in_world(world_2, v)
    })


def counterfactual_and_neighbors(graph, worlds):
    return flipped({
        (u @ world, v @ world) for world in worlds for u in graph.nodes() for v in graph.undirected.neighbors(u)
        if node_not_an_intervention_in_world(world, u) and node_not_an_intervention_in_world(world, v)
    })


def not_intervened_in(world, node):
    if isinstance(node, (Intervention, CounterfactualVariable)):
        raise TypeError("graph nodes are plain variables")
    return (+node not in world) and (-node not in world)


def relabel(event, preferred_node, eliminated_node):
    if eliminated_node in event:
        event[preferred_node] = event[eliminated_node]
        del event[eliminated_node]
    return event


# ---- Lemma 25: merge node2 into node1 (the factual / lower-named one is kept); node1 keeps its own parents, inherits node2's children and
# ---- bidirected neighbours; node2 and those of its parents that node1 does not share are dropped, every other node stays ------------
def merged(graph, node1, node2):
    if isinstance(node1, CounterfactualVariable) and not isinstance(node2, CounterfactualVariable):
        node1, node2 = node2, node1
    elif not isinstance(node1, CounterfactualVariable) and isinstance(node2, CounterfactualVariable):
        pass
    else:
        node1, node2 = sorted([node1, node2], key=_variable_sort_key)
    directed = [(u, v) for u, v in graph.directed.edges() if node2 not in (u, v)]
    directed += [(node1, v) for u, v in graph.directed.edges() if node2 == u]
    undirected = {frozenset({u, v}) for u, v in graph.undirected.edges() if node2 not in (u, v)}
    undirected.update(frozenset({node1, v}) for u, v in graph.undirected.edges() if node2 == u and node1 != v)
    undirected.update(frozenset({u, node1}) for u, v in graph.undirected.edges() if node2 == v and node1 != u)
    parents_of_node1 = [u for u, v in graph.directed.edges() if v == node1]
    orphaned = [u for u, v in graph.directed.edges() if v == node2 and u not in parents_of_node1]
    return (
        NxMixedGraph.from_edges(
            nodes=[n for n in graph.nodes() if n != node2 and n not in orphaned],
            directed=list(set(directed)),
            undirected=[tuple(fz) for fz in undirected],
        ),
        node1,
        node2,
    )


# ---- Lemma 24, parents: the two nodes have the same confounders, and their differing parents -- paired up in base-name order -- ALL attain the same value
def parents_match(graph, event, a, b) -> bool:
    if not has_same_confounders(graph, a, b):
        return False
    parents_a = set(graph.directed.predecessors(a))
    parents_b = set(graph.directed.predecessors(b))
    remainder_a, remainder_b = parents_a - parents_b, parents_b - parents_a
    if len(remainder_a) != len(remainder_b):
        return False
    return all(
        nodes_attain_same_value(graph, event, parent_a, parent_b)
        for parent_a, parent_b in zip(
            sorted(remainder_a, key=lambda x: x.get_base()),
            sorted(remainder_b, key=lambda x: x.get_base()),
            strict=False,
        )
    )


# ---- Lemma 24 as used by make-cg: both nodes are (still) in the graph, and they are equivalent under the parallel-worlds assumption --
def lemma_24(cf_graph, event, node, node_at_interventions) -> bool:
    return (node in cf_graph.nodes()) and (node_at_interventions in cf_graph.nodes()) and is_pw_equivalent(cf_graph, event, node, node_at_interventions)


# ---- equivalence under the parallel-worlds assumption: same mechanism, parents that attain the same values, same domain of values -----
def pw_equivalent(graph, event, node1, node2) -> bool:
    if node1 not in graph:
        raise KeyError
    if node2 not in graph:
        raise KeyError
    return (
        has_same_function(node1, node2)
        and parents_attain_same_values(graph, event, node1, node2)
        and nodes_have_same_domain_of_values(graph, event, node1, node2)
    )


# ---- same domain of values: same confounders, same base variable, and either neither is fixed by an intervention on itself or both are
# ---- fixed to the SAME value
def same_domain(graph, event, a, b) -> bool:
    if not has_same_confounders(graph, a, b):
        return False
    if a.get_base() != b.get_base():
        return False
    if is_not_self_intervened(a) and is_not_self_intervened(b):
        return True
    if is_not_self_intervened(a) or is_not_self_intervened(b):
        return False
    return value_of_self_intervention(a) == value_of_self_intervention(b)


# ---- the value a variable is fixed to by an intervention on itself (its own +base / -base among its subscripts), if any ---------------
def own_value(a):
    if not isinstance(a, CounterfactualVariable):
        return None
    base = a.get_base()
    if +base in a.interventions:
        return +base
    elif -base in a.interventions:
        return -base
    return None


# ---- "the lower" of two copies (Lemma 25 keeps one name): ordered by name, then by the sorted subscripts written out one after the other, so a
# ---- copy whose subscripts are a proper prefix of the other's -- the one with FEWER interventions -- comes first and is the one kept
def lower_of_two_key(variable):
    if isinstance(variable, CounterfactualVariable):
        return variable.name, ",".join(i.to_y0() for i in _sort_interventions(variable.interventions))
    else:
        return variable.name, ""
