"""Printing of a probability term in the DSL's own syntax: when the subscripts may be written once in front.  PARSED and compared as terms;
never imported or executed."""

import itertools as itt

from y0.dsl import CounterfactualVariable, Distribution, Variable, _sort_interventions


def probability_text(self):
    # the subscripts are hoisted -- P[x](Y, Z) -- only if EVERY variable of the distribution carries exactly the same subscripts
    # (same variables AND same values) and there is at least one; the hoisted text is then that common set, sorted, `+` for starred values
    subscript_sets = {x.interventions if isinstance(x, CounterfactualVariable) else frozenset([]) for x in itt.chain(self.children, self.parents)}
    if len(subscript_sets) != 1:
        return f"P({self.distribution.to_y0()})"
    common = subscript_sets.pop()
    if not common:
        return f"P({self.distribution.to_y0()})"
    bare = Distribution(
        parents=tuple(Variable(name=v.name, star=v.star) for v in self.parents),
        children=tuple(Variable(name=v.name, star=v.star) for v in self.children),
    )
    if not bare:
        return f"P({self.distribution.to_y0()})"
    text = ",".join(f"+{i.name}" if i.star else i.name for i in _sort_interventions(common))
    return f"P[{text}]({bare.to_y0()})"
