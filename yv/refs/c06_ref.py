"""Setting up a surrogate-outcome transport problem (Correa & Bareinboim 2020): which variables get a transport node, the transport
diagram of a source domain, and the query handed to TRSO.  PARSED and compared as terms; never imported or executed."""

from y0.algorithm.transport import TARGET_DOMAIN, TransportQuery, create_transport_diagram, get_nodes_to_transport, transport_variable
from y0.graph import NxMixedGraph


def query_of(graph, target_outcomes, target_interventions, surrogate_outcomes, surrogate_interventions):
    # every source domain keeps ITS OWN experiments and outcomes; its diagram carries transport nodes for the variables whose mechanism
    # may differ there; the target domain's diagram is the graph itself
    if set(surrogate_outcomes) != set(surrogate_interventions):
        raise ValueError
    graphs = {
        domain: create_transport_diagram(
            graph=graph,
            nodes_to_transport=get_nodes_to_transport(
                surrogate_interventions=surrogate_interventions[domain], surrogate_outcomes=surrogate_outcomes[domain], graph=graph
            ),
        )
        for domain in surrogate_outcomes
    }
    graphs[TARGET_DOMAIN] = graph
    return TransportQuery(
        target_interventions=target_interventions,
        target_outcomes=target_outcomes,
        graphs=graphs,
        domains=set(surrogate_outcomes),
        surrogate_interventions=surrogate_interventions,
        target_experiments=set(),
    )


def transport_diagram(graph, nodes_to_transport):
    # the graph plus a transport node T_v -> v for every variable to transport
    rv = NxMixedGraph()
    for node in graph.nodes():
        rv.add_node(node)
    for u, v in graph.directed.edges():
        rv.add_directed_edge(u, v)
    for u, v in graph.undirected.edges():
        rv.add_undirected_edge(u, v)
    for node in nodes_to_transport:
        rv.add_directed_edge(transport_variable(node), node)
    return rv
