"""Setting up a surrogate-outcome transport problem (Correa & Bareinboim 2020): which variables get a transport node, the transport
diagram of a source domain, and the query handed to TRSO.  PARSED and compared as terms; never imported or executed."""

from y0.algorithm.transport import _TRANSPORT_PREFIX, TARGET_DOMAIN, TransportQuery, activate_domain_and_interventions, create_transport_diagram, get_nodes_to_transport, transport_variable
from y0.dsl import CounterfactualVariable, Distribution, Fraction, Intervention, Variable, One, PopulationProbability, Probability, Product, Sum
from y0.graph import NxMixedGraph


def query_of(graph, target_outcomes, target_interventions, surrogate_outcomes, surrogate_interventions):
    # every source domain keeps ITS OWN experiments and outcomes; its diagram carries transport nodes for the variables whose mechanism
    # may differ there; the target domain's diagram is the graph itself
    if set(surrogate_outcomes) != set(surrogate_interventions):
        raise ValueError
    graphs = {
        domain: create_transport_diagram(
            graph=graph,
            nodes_to_transport=get_nodes_to_transport(
                surrogate_interventions=surrogate_interventions[domain], surrogate_outcomes=surrogate_outcomes[domain], graph=graph
            ),
        )
        for domain in surrogate_outcomes
    }
    graphs[TARGET_DOMAIN] = graph
    return TransportQuery(
        target_interventions=target_interventions,
        target_outcomes=target_outcomes,
        graphs=graphs,
        domains=set(surrogate_outcomes),
        surrogate_interventions=surrogate_interventions,
        target_experiments=set(),
    )


def transport_diagram(graph, nodes_to_transport):
    # the graph plus a transport node T_v -> v for every variable to transport
    rv = NxMixedGraph()
    for node in graph.nodes():
        rv.add_node(node)
    for u, v in graph.directed.edges():
        rv.add_directed_edge(u, v)
    for u, v in graph.undirected.edges():
        rv.add_undirected_edge(u, v)
    for node in nodes_to_transport:
        rv.add_directed_edge(transport_variable(node), node)
    return rv


def activated(expression, interventions, domain):
    # TRSO line 6/7: the estimand found inside source domain `domain` under the experiment do(interventions) is re-read as a statement about
    # that domain's EXPERIMENTAL distribution: every probability term -- its children AND its conditioning set -- moves into that world
    # (variables held fixed by the experiment drop out; a term with no child left is 1), sums keep their ranges, products and fractions are
    # activated part by part
    if isinstance(expression, Probability):
        if not isinstance(expression, PopulationProbability):
            raise TypeError
        children = set(expression.children) - interventions
        if not children:
            return One()
        distribution = Distribution.safe(children)
        parents = set(expression.parents) - interventions
        if parents:
            distribution = distribution.given(parents)
        return PopulationProbability(population=domain, distribution=distribution).intervene(interventions)
    if isinstance(expression, Sum):
        return Sum.safe(activate_domain_and_interventions(expression.expression, interventions, domain), expression.ranges)
    if isinstance(expression, Fraction):
        numerator = activate_domain_and_interventions(expression.numerator, interventions, domain)
        denominator = activate_domain_and_interventions(expression.denominator, interventions, domain)
        return (numerator / denominator).simplify()
    if isinstance(expression, Product):
        return Product.safe(activate_domain_and_interventions(e, interventions, domain) for e in expression.expressions)
    raise NotImplementedError


def intervened_term(self, variables):
    # a probability term under do(variables): the WHOLE distribution -- outcome variables and conditioning set alike -- moves into that world,
    # rebuilt as the same kind of term (same population)
    return self._new(self.distribution.intervene(variables))


def selection_node(node):
    # a selection (transport) node is a plain variable whose name BEGINS WITH the marker transport_variable() prepends -- the reader's test is the
    # writer's construction read backwards; nothing else about the name is looked at (the transported variable's own name may contain the marker)
    return not isinstance(node, (CounterfactualVariable, Intervention)) and node.name.startswith(_TRANSPORT_PREFIX)


def selection_node_of(variable):
    if isinstance(variable, (CounterfactualVariable, Intervention)):
        raise TypeError
    return Variable(_TRANSPORT_PREFIX + variable.name)
