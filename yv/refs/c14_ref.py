"""Definitions behind C14 that are not plain membership tables: the nodes on directed paths from a source set to a target set.
PARSED and compared as terms; never imported or executed."""

import itertools as itt
from itertools import combinations

import networkx as nx

from y0.dsl import CounterfactualVariable, Intervention
from y0.graph import NxMixedGraph, _ensure_set


def nodes_on_directed_paths_dag(graph, sources, targets):
    # v lies on a directed path s ~> v ~> t for some (s, t); an endpoint s or t counts only for a pair (s, t) that IS connected
    tc = nx.transitive_closure_dag(graph)
    rv = {
        node for node in graph.nodes()
        if any(tc.has_edge(source, node) and tc.has_edge(node, target) for source, target in itt.product(sources, targets))
    }
    for source, target in itt.product(sources, targets):
        if tc.has_edge(source, target):
            rv.add(source)
            rv.add(target)
    return rv


def nodes_on_directed_paths_cyclic(graph, sources, targets):
    return {
        node
        for source, target in itt.product(sources, targets)
        for path in nx.all_simple_paths(graph, source, target)
        for node in path
    }


# ---- the prefix of a topological order before the first of the given nodes
def prefix_before(self, nodes, topological_sort_order=None):
    if not topological_sort_order:
        topological_sort_order = list(self.topological_sort())
    node_set = _ensure_set(nodes)
    pre = []
    for node in topological_sort_order:
        if node in node_set:
            break
        pre.append(node)
    return pre


# ---- intervention: every node relabelled; a directed edge survives iff its target is free, a bidirected edge iff both endpoints are
def is_free(node, interventions):
    if isinstance(node, Intervention | CounterfactualVariable):
        raise TypeError("this shouldn't happen since the graph should not have interventions as nodes")
    return (+node not in interventions) and (-node not in interventions)


def intervened(self, variables):
    return self.from_edges(
        nodes=[node.intervene(variables) for node in self.nodes()],
        directed=[(u.intervene(variables), v.intervene(variables)) for u, v in self.directed.edges() if is_free(v, variables)],
        undirected=[
            (u.intervene(variables), v.intervene(variables))
            for u, v in self.undirected.edges()
            if is_free(u, variables) and is_free(v, variables)
        ],
    )


# ---- equality: same node set, same directed edge set, same bidirected edge set (set views: insertion order plays no part)
def same_graph(self, other) -> bool:
    return (
        isinstance(other, NxMixedGraph)
        and self.nodes() == other.nodes()
        and self.directed.edges() == other.directed.edges()
        and self.undirected.edges() == other.undirected.edges()
    )


# ---- the flat undirected graph: every node, every directed edge and every bidirected edge as an undirected link
def flat_graph(self):
    rv = nx.Graph()
    rv.add_nodes_from(self.nodes())
    rv.add_edges_from(self.directed.edges())
    rv.add_edges_from(self.undirected.edges())
    return rv


# ---- moralisation: a copy of the graph in which every two parents of a node are married by a bidirected edge
def moralized(self):
    rv = NxMixedGraph(directed=self.directed.copy(), undirected=self.undirected.copy())
    for node in self.nodes():
        for u, v in combinations(self.directed.predecessors(node), 2):
            rv.add_undirected_edge(u, v)
    return rv


def ancestors_after_intervening(self, interventions, outcomes):
    # An(Y) in the graph with every arrow INTO an intervened node removed -- unconditionally: a node of X without parents loses nothing, but the
    # other nodes of X still lose theirs
    return self.remove_in_edges(interventions).ancestors_inclusive(outcomes)


def without_effect_on(self, interventions, outcomes):
    # (V ∖ X) ∖ An(Y) in that same mutilated graph
    return set(self.nodes()) - interventions - self.remove_in_edges(interventions).ancestors_inclusive(outcomes)


def as_interventions(variables):
    # one intervention per given variable, in the order given: an Intervention stays what it is, a plain variable v becomes "v held at its value"
    return tuple(v if isinstance(v, Intervention) else Intervention(name=v.name, star=False) for v in variables)
