"""Definitions behind C14 that are not plain membership tables: the nodes on directed paths from a source set to a target set.
PARSED and compared as terms; never imported or executed."""

import itertools as itt

import networkx as nx


def nodes_on_directed_paths_dag(graph, sources, targets):
    # v lies on a directed path s ~> v ~> t for some (s, t); an endpoint s or t counts only for a pair (s, t) that IS connected
    tc = nx.transitive_closure_dag(graph)
    rv = {
        node for node in graph.nodes()
        if any(tc.has_edge(source, node) and tc.has_edge(node, target) for source, target in itt.product(sources, targets))
    }
    for source, target in itt.product(sources, targets):
        if tc.has_edge(source, target):
            rv.add(source)
            rv.add(target)
    return rv


def nodes_on_directed_paths_cyclic(graph, sources, targets):
    return {
        node
        for source, target in itt.product(sources, targets)
        for path in nx.all_simple_paths(graph, source, target)
        for node in path
    }
