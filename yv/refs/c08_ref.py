"""IDC* (Shpitser & Pearl 2008, Figure 4) over the repository's own ID*, make-cg and separation test, as plain Python.
PARSED and compared as terms; never imported or executed."""

from y0.algorithm.conditional_independencies import are_d_separated
from y0.algorithm.identify.cg import is_not_self_intervened, make_counterfactual_graph
from y0.algorithm.identify.id_star import id_star
from y0.algorithm.identify.idc_star import (
    cf_rule_2_of_do_calculus_applies,
    get_new_outcomes_and_conditions,
    get_remaining_and_missing_events,
    idc_star,
)
from y0.algorithm.identify.utils import Unidentifiable
from y0.dsl import Zero


def idc_star_algorithm(graph, outcomes, conditions, _number_recursions=0):
    # line 1: conditioning on an event of probability zero is refused; "not identifiable" is not "zero"
    try:
        if isinstance(id_star(graph, conditions), Zero):
            raise ValueError
    except Unidentifiable:
        pass
    # line 2 / 3
    cf_graph, new_events = make_counterfactual_graph(graph, outcomes | conditions)
    if new_events is None:
        return Zero()
    new_outcomes, new_conditions = get_new_outcomes_and_conditions(new_events, outcomes, conditions)
    # line 4: the first condition for which rule 2 holds becomes a subscript of the outcomes it is an ancestor of
    for condition in new_conditions:
        if cf_rule_2_of_do_calculus_applies(cf_graph, new_outcomes, condition):
            return idc_star(
                graph,
                {
                    (outcome.intervene(condition) if condition in cf_graph.ancestors_inclusive(outcome) else outcome): value
                    for outcome, value in new_outcomes.items()
                },
                {k: v for k, v in new_conditions.items() if k != condition},
                _number_recursions=_number_recursions + 1,
            )
    # line 5: P(γ | δ) = P'(γ, δ) / P'(δ) with P' = ID*(G, γ ∧ δ)
    estimand = id_star(graph, new_outcomes | new_conditions, _number_recursions=_number_recursions + 1)
    if len(conditions) == 0:
        return estimand
    return estimand.conditional([c.get_base() for c in conditions])


def rule_2(cf_graph, outcomes, condition):
    # (Y ⟂ z | blocked nodes) in G' with the edges OUT of z removed, for ALL outcomes
    blocked = {n for n in cf_graph.nodes() if not is_not_self_intervened(n)}
    return all(are_d_separated(cf_graph.remove_out_edges(condition), outcome, condition, conditions=blocked) for outcome in outcomes)


def remaining_and_missing(new_event, old_event):
    return {k: v for k, v in old_event.items() if k in new_event}, {k: v for k, v in old_event.items() if k not in new_event}


def reassociated(new_event, outcomes, conditions):
    # keys of the relabelled event that neither side had before are the merged nodes; each goes to the side that lost a variable of the same
    # base (to the only side that lost anything, when only one did)
    kept_o, lost_o = get_remaining_and_missing_events(new_event, outcomes)
    kept_c, lost_c = get_remaining_and_missing_events(new_event, conditions)
    fresh = set(new_event) - set(outcomes) - set(conditions)
    if len(lost_o) > 0 and len(lost_c) > 0:
        return (
            kept_o | {k: new_event[k] for k in fresh if k.get_base() in {m.get_base() for m in lost_o}},
            kept_c | {k: new_event[k] for k in fresh if k.get_base() in {m.get_base() for m in lost_c}},
        )
    if len(lost_o) > 0:
        return kept_o | {k: new_event[k] for k in fresh}, kept_c
    if len(lost_c) > 0:
        return kept_o, kept_c | {k: new_event[k] for k in fresh}
    return kept_o, kept_c
