"""σ-separation (Forré & Mooij 2018, Definition 2.12 as implemented for ADMGs) as plain Python over graph primitives.
PARSED and compared as terms; never imported or executed."""

import networkx as nx
from more_itertools import triplewise

from y0.algorithm.separation.sigma_separation import (
    get_equivalence_classes,
    is_collider,
    is_non_collider_fork,
    is_non_collider_left_chain,
    is_non_collider_right_chain,
    is_z_sigma_open,
)


def arrowhead_into(graph, u, v):
    # u *-> v : a directed edge u -> v or a bidirected edge u <-> v
    return graph.directed.has_edge(u, v) or graph.undirected.has_edge(u, v)


def plain_arrow(graph, u, v):
    # a walk is a sequence of EDGES: it can leave u by a directed edge u -> v whenever there is one -- a bidirected edge u <-> v next to it
    # (a "bow") gives the walk a second choice for this step, it does not take the first away
    return graph.directed.has_edge(u, v)


def collider(graph, left, middle, right, conditions):
    return arrowhead_into(graph, left, middle) and arrowhead_into(graph, right, middle) and middle in conditions


def left_chain(graph, left, middle, right, conditions, sigma):
    return plain_arrow(graph, middle, left) and arrowhead_into(graph, right, middle) and (
        middle not in conditions or (middle in conditions and middle in sigma[left]))


def right_chain(graph, left, middle, right, conditions, sigma):
    return arrowhead_into(graph, left, middle) and plain_arrow(graph, middle, right) and (
        middle not in conditions or (middle in conditions and middle in sigma[right]))


def fork(graph, left, middle, right, conditions, sigma):
    return plain_arrow(graph, middle, left) and plain_arrow(graph, middle, right) and (
        middle not in conditions or (middle in conditions and middle in sigma[left] and middle in sigma[right]))


def triple_open(graph, left, middle, right, conditions, sigma) -> bool:
    return (
        is_collider(graph, left, middle, right, conditions)
        or is_non_collider_left_chain(graph, left, middle, right, conditions, sigma)
        or is_non_collider_right_chain(graph, left, middle, right, conditions, sigma)
        or is_non_collider_fork(graph, left, middle, right, conditions, sigma)
    )


def passable(graph, left, middle, right, conditions, sigma) -> bool:
    # a triple is passable if it is open, or becomes open after one step to a neighbour of the middle node and back
    if triple_open(graph, left, middle, right, conditions, sigma):
        return True
    return any(
        triple_open(graph, left, middle, n, conditions, sigma)
        and triple_open(graph, middle, n, middle, conditions, sigma)
        and triple_open(graph, n, middle, right, conditions, sigma)
        for n in graph.disorient().neighbors(middle)
        if n != middle
    )


def path_open(graph, path, sigma, conditions=None):
    if conditions is None:
        conditions = set()
    if path[0] in conditions or path[-1] in conditions:
        return False
    return all(passable(graph, left, middle, right, conditions, sigma) for left, middle, right in triplewise(path))


def separated(graph, left, right, conditions=None, cutoff=None):
    if conditions is None:
        z = set()
    else:
        z = set(conditions)
    return not any(
        is_z_sigma_open(graph, path, conditions=z, sigma=get_equivalence_classes(graph))
        for path in nx.all_simple_paths(graph.disorient(), left, right, cutoff=cutoff)
    )


def strongly_connected_classes(graph):
    # the coarsest σ: σ(v) = An(v) ∩ De(v) in the directed part
    return {v: graph.ancestors_inclusive(v).intersection(graph.descendants_inclusive(v)) for v in graph.nodes()}
