"""The canonical form of a probability expression, branch by branch, as plain Python.  `flat` stands for the repository's own (verified)
routine that re-yields factors with nested products expanded.  PARSED and compared as terms; never imported or executed."""

from y0.dsl import Distribution, Fraction, One, Probability, Product, Sum, Zero


def flat(expressions):
    ...


def canonical_form(self, expression):
    if isinstance(expression, Probability):
        # children stay children, parents stay parents, both sorted by the position of the variable's NAME in the requested ordering
        return expression._new(
            Distribution(
                children=tuple(sorted(expression.children, key=lambda v: self.ordering_level[v.name])),
                parents=tuple(sorted(expression.parents, key=lambda v: self.ordering_level[v.name])),
            )
        )
    elif isinstance(expression, Sum):
        # the canonical summand under the same ranges, re-simplified
        return Sum.safe(expression=self.canonicalize(expression.expression), ranges=expression.ranges, simplify=True)
    elif isinstance(expression, Product):
        # nested products are expanded BEFORE the factors are canonicalised and AGAIN afterwards (a factor may canonicalise to a product);
        # Product.safe sorts
        return Product.safe(flat(self.canonicalize(f) for f in flat(expression.expressions)))
    elif isinstance(expression, Fraction):
        # the shortcuts x/1 = x and a/a = 1 act on the CANONICAL operands
        numerator = self.canonicalize(expression.numerator)
        denominator = self.canonicalize(expression.denominator)
        if isinstance(denominator, One):
            return numerator
        if numerator == denominator:
            return One()
        # ... and on the QUOTIENT as well: dividing by a fraction multiplies out (a / (1/c) is built as (a*c)/1, a / (a*b/b) as (a*b)/(a*b)),
        # so without this a second canonicalisation would still reduce the result
        quotient = numerator / denominator
        if isinstance(quotient, Fraction):
            if isinstance(quotient.denominator, One):
                return quotient.numerator
            if quotient.numerator == quotient.denominator:
                return One()
        return quotient
    elif isinstance(expression, One | Zero):
        return expression
    else:
        raise TypeError
