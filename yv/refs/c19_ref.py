"""Published definitions behind C19 (Correa, Lee & Bareinboim 2022, "Counterfactual Transportability: A Formal Approach"),
written as plain Python.  This file is PARSED by the checker and compared, as terms, with the repository's functions; it is never
imported or executed.  Graph operations are the mixed-graph primitives whose meaning C14 establishes.

Notation: a counterfactual variable Y_x has base Y and subscript (interventions) x; X = the base variables of x.
"""

from y0.algorithm.counterfactual_transport.ancestor_utils import (
    _get_ancestral_set_after_intervening_on_conditioned_variables,
    _get_conditioned_variables_in_ancestral_set,
    _merge_frozen_sets_linked_by_bidirectional_edges,
    _merge_frozen_sets_with_common_vertices,
    get_ancestors_of_counterfactual,
    minimize_counterfactual,
)
from collections import defaultdict
from itertools import combinations_with_replacement

from y0.algorithm.counterfactual_transport.api import (
    _any_variables_with_inconsistent_values,
    _reduce_reflexive_counterfactual_variables_to_interventions,
    _remove_repeated_variables_and_values,
    _split_event_by_reflexivity,
    convert_to_counterfactual_factor_form,
    get_counterfactual_factors,
    is_counterfactual_factor_form,
)
from y0.algorithm.counterfactual_transport.api import minimize_event as api_minimize_event
from y0.dsl import CounterfactualVariable, Intervention, P, Product, Sum, Variable
from y0.graph import NxMixedGraph


# ---- Section 4, "||Y_x|| = Y_t with T = X ∩ An(Y) in G with the edges INTO X removed, t = x ∩ T" -------------------------------
def minimize(variable: Variable, graph: NxMixedGraph) -> Variable:
    if not isinstance(variable, CounterfactualVariable):
        return variable
    xs = {i.get_base() for i in variable.interventions}
    relevant = graph.remove_in_edges(xs).ancestors_inclusive(variable.get_base())
    t = frozenset(i for i in variable.interventions if i.get_base() in relevant)
    if not t:
        # no subscript is causally relevant: the minimised variable is the plain variable (still well-formed)
        return Variable(name=variable.name, star=variable.star)
    return CounterfactualVariable(name=variable.name, star=variable.star, interventions=t)


def minimize_event(event, graph):
    return [(minimize_counterfactual(variable, graph), value) for variable, value in event]


def minimize_event_inlined(event, graph):
    return [(minimize(variable, graph), value) for variable, value in event]


# ---- Definition 2.1: W_z ∈ An(Y_x) iff W ∈ An(Y) in G with the edges OUT OF X removed and z = x ∩ An(W) in G with edges INTO X removed
def ancestors(event: Variable, graph: NxMixedGraph) -> set[Variable]:
    if not isinstance(event, Variable):
        raise TypeError("a variable is required")
    if not isinstance(event, CounterfactualVariable):
        return graph.ancestors_inclusive(event)
    xs = {i.get_base() for i in event.interventions}
    out = set()
    for w in graph.remove_out_edges(xs).ancestors_inclusive(event.get_base()):
        z = {v for v in event.interventions if v.get_base() in graph.remove_in_edges(xs).ancestors_inclusive(w)}
        if z:
            out.add(w.intervene(z))
        else:
            out.add(w)
    return out


# ---- Definition 4.2 ------------------------------------------------------------------------------------------------------------
def conditioned_in_ancestral_set(conditioned_variables, ancestral_set_root_variable, graph):
    # X*(W_t) = V( ||X*|| ∩ An(W_t) )
    minimised = {minimize_counterfactual(x, graph) for x in conditioned_variables}
    return frozenset(v.get_base() for v in minimised & get_ancestors_of_counterfactual(ancestral_set_root_variable, graph))


def ancestral_set(conditioned_variables, ancestral_set_root_variable, graph):
    # An(W_t) in G with the edges out of X*(W_t) removed
    cut = _get_conditioned_variables_in_ancestral_set(
        conditioned_variables=conditioned_variables, ancestral_set_root_variable=ancestral_set_root_variable, graph=graph
    )
    return frozenset(get_ancestors_of_counterfactual(ancestral_set_root_variable, graph.remove_out_edges(cut)))


def ancestral_components(conditioned_variables, root_variables, graph):
    # one ancestral set per root variable; sets are united when they share a vertex or are linked by a bidirected edge OF G
    sets = {
        _get_ancestral_set_after_intervening_on_conditioned_variables(
            conditioned_variables=conditioned_variables, ancestral_set_root_variable=w, graph=graph
        )
        for w in root_variables
    }
    return frozenset(_merge_frozen_sets_linked_by_bidirectional_edges(input_sets=_merge_frozen_sets_with_common_vertices(sets), graph=graph))


# ---- ctf-factor form: W_{pa_w} (Section 2), keeping the value the event gives to a parent that is already subscripted -------------
def factor_form(event, graph):
    out = []
    for variable, value in event:
        pa = set(graph.directed.predecessors(variable.get_base()))
        if isinstance(variable, CounterfactualVariable):
            kept = {i for i in variable.interventions if i.get_base() in pa}
        else:
            kept = set()
        sub = kept | {p for p in pa if p.get_base() not in {k.get_base() for k in kept}}
        if len(sub) > 0:
            out += [(variable.get_base().intervene(sub), value)]
        else:
            out += [(variable.get_base(), value)]
    return out


# ---- Theorem 1 / Eq. 11-15:  P(Y* = y*) = Σ_{d* ∖ y*} Π_j P(C_j* = c_j*),  D* = An(Y*), C_j = ctf-factors of the districts of G[V(D*)]
def factorization(variables, graph):
    if not variables:
        raise TypeError("at least one variable")
    event = [(convert_to_counterfactual_factor_form(event=[(variable, value)], graph=graph)[0][0], value) for variable, value in variables]
    d = set()
    for y, _ in variables:
        d.update(get_ancestors_of_counterfactual(y, graph))
    d_cf = {convert_to_counterfactual_factor_form(event=[(w, None)], graph=graph)[0][0] for w in d}
    bases = {w.get_base() for w in d_cf}
    factors = get_counterfactual_factors(event=d_cf, graph=graph.subgraph(bases))
    expression = Sum.safe(Product.safe(P(c) for c in factors), bases - {y.get_base() for y, _ in variables})
    return expression, event


# ---- ctf-factors: the event (already in ctf-factor form) grouped by the district of each variable's base (Section 2) ---------------
def is_factor_form(event, graph):
    for variable in event:
        pa = list(graph.directed.predecessors(variable.get_base()))
        if isinstance(variable, CounterfactualVariable):
            if any(variable.get_base().name == i.name for i in variable.interventions):
                return False
            for p in pa:
                if not any(p.name == i.name for i in variable.interventions):
                    return False
        elif len(pa) > 0:
            return False
    return True


def factors(event, graph):
    if not is_counterfactual_factor_form(event=event, graph=graph):
        raise ValueError("not in counterfactual factor form")
    by_district = defaultdict(set)
    for variable in event:
        by_district[graph.get_district(variable.get_base())].add(variable)
    return [set(members) for members in by_district.values()]


def factors_with_values(event, graph):
    if not is_counterfactual_factor_form(event={variable for variable, _ in event}, graph=graph):
        raise ValueError("not in counterfactual factor form")
    by_district = defaultdict(set)
    for variable, value in event:
        by_district[graph.get_district(variable.get_base())].add((variable, value))
    return [set(members) for members in by_district.values()]


def same_district(event, graph):
    if len(event) < 1:
        return True
    return len({graph.get_district(v.get_base()) for v in event}) == 1


# ---- Definition 4.2, the two merge relations (adjacency between ancestral sets) ------------------------------------------------------
def adjacency_common_vertices(input_sets):
    adj = defaultdict(list)
    bases = defaultdict(frozenset)
    for s in input_sets:
        bases[s] = frozenset(v.get_base() for v in s)
    for a, b in combinations_with_replacement(input_sets, 2):
        if bases[a] & bases[b]:
            adj[a].append(b)
            adj[b].append(a)
    return adj


def adjacency_bidirected(input_sets, graph):
    adj = defaultdict(list)
    bases = defaultdict(frozenset)
    for s in input_sets:
        bases[s] = frozenset(v.get_base() for v in s)
    home = defaultdict(frozenset)
    for s in input_sets:
        for v in bases[s]:
            home[v] = s
    for s in input_sets:
        adj[s].append(s)
    for e in graph.undirected.edges:
        if e[0] in home and e[1] in home:
            if home[e[0]] != home[e[1]]:
                adj[home[e[0]]].append(home[e[1]])
                adj[home[e[1]]].append(home[e[0]])
    return adj


# ---- Algorithm 1 (SIMPLIFY) -------------------------------------------------------------------------------------------------------------
def split_by_reflexivity(event):
    reflexive = [
        (v, x) for v, x in event
        if not isinstance(v, CounterfactualVariable) or any(i.get_base() == v.get_base() for i in v.interventions)
    ]
    nonreflexive = [
        (v, x) for v, x in event
        if isinstance(v, CounterfactualVariable) and not any(i.get_base() == v.get_base() for i in v.interventions)
    ]
    return reflexive, nonreflexive


def values_per_variable(event):
    values = defaultdict(set)
    for v, x in event:
        values[v].add(x)
    for v in values.keys():
        if len(values[v]) > 1 and None in values[v]:
            values[v].remove(None)
    return dict(values)


def inconsistent(nonreflexive_variable_to_value_mappings, reflexive_variable_to_value_mappings):
    nr = nonreflexive_variable_to_value_mappings
    r = reflexive_variable_to_value_mappings
    if any(len(vs) > 1 and None in vs for vs in nr.values()) or any(
        None in r[k] and not isinstance(k, CounterfactualVariable) and len(r[k]) > 1 for k in r
    ):
        raise TypeError("a value and no value for one variable")
    # Y_x = y and Y_x = y' with y != y'
    if any(len(vs) > 1 for vs in nr.values()):
        return True
    if any(None in r[k] and isinstance(k, CounterfactualVariable) for k in r):
        raise TypeError("a reflexive counterfactual variable without a value")
    # Y = y and Y = y';  Y_y = y' with y != y'
    return any(
        (not isinstance(k, CounterfactualVariable) and len(r[k]) > 1)
        or (isinstance(k, CounterfactualVariable) and any({i} != r[k] for i in k.interventions))
        for k in r.keys()
    )


def reduce_reflexive(variables):
    out = defaultdict(set)
    for v, xs in variables.items():
        if not isinstance(v, CounterfactualVariable):
            out[v].update(xs)
        else:
            if len(v.interventions) != 1:
                raise ValueError("more than one intervention")
            if any(i.get_base() != v.get_base() for i in v.interventions):
                raise ValueError("non-reflexive")
            out[v.get_base()].update(xs)
    return dict(out)


def simplify(event, graph):
    minimized = api_minimize_event(event=event, graph=graph)
    reflexive, nonreflexive = _split_event_by_reflexivity(minimized)
    nr = _remove_repeated_variables_and_values(nonreflexive)
    r = _remove_repeated_variables_and_values(reflexive)
    if _any_variables_with_inconsistent_values(nonreflexive_variable_to_value_mappings=nr, reflexive_variable_to_value_mappings=r):
        return None
    r = _reduce_reflexive_counterfactual_variables_to_interventions(r)
    if _any_variables_with_inconsistent_values(nonreflexive_variable_to_value_mappings=nr, reflexive_variable_to_value_mappings=r):
        return None
    return [(k, nr[k].pop()) for k in nr] + [(k, r[k].pop()) for k in r]
