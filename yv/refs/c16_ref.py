"""Latent-variable DAG conversions and Evans' simplification rules (Evans 2012/2016) as plain Python over networkx's builder calls.
PARSED and compared as terms (graph-building effects by their denotation: node set, edge set, node tags); never imported or executed."""

import itertools as itt

import networkx as nx

from y0.algorithm.simplify_latent import (
    SimplifyResults,
    iter_latents,
    iter_middle_latents,
    iter_unidirectional_latents,
    iter_widow_latents,
    remove_redundant_latents,
    remove_unidirectional_latents,
    remove_widow_latents,
    simplify_latent_dag,
    transform_latents_with_parents,
)
from y0.dsl import Variable
from y0.graph import DEFAULT_TAG, DEFULT_PREFIX, NxMixedGraph, _ensure_set

DEFAULT_SUFFIX = "_prime"


# ---- ADMG -> LV-DAG: every node, every directed edge, one tagged latent parent per bidirected edge
def lv_dag_of(self, prefix=None, start=0, tag=None):
    self.raise_on_counterfactual()
    if tag is None:
        tag = DEFAULT_TAG
    if prefix is None:
        prefix = DEFULT_PREFIX
    rv = nx.DiGraph()
    rv.add_nodes_from(self.nodes())
    rv.add_nodes_from(itt.chain.from_iterable(list(self.undirected.edges())))
    rv.add_edges_from(self.directed.edges())
    for i, (u, v) in enumerate(sorted(list(self.undirected.edges())), start=start):
        latent = Variable(f"{prefix}{i}")
        rv.add_node(latent, **{tag: True})
        rv.add_edges_from([(latent, u), (latent, v)])
    return rv


# ---- LV-DAG -> ADMG: every untagged node (unconditionally) with its edges; a bidirected edge between every two children of a tagged node
def admg_of(graph, tag=None):
    if tag is None:
        tag = DEFAULT_TAG
    if any(tag not in data for data in graph.nodes.values()):
        raise ValueError
    rv = NxMixedGraph()
    for node, data in graph.nodes.items():
        if data[tag]:
            for a, b in itt.combinations(graph.successors(node), 2):
                rv.add_undirected_edge(a, b)
        else:
            rv.add_node(node)
            for child in graph.successors(node):
                rv.add_directed_edge(node, child)
    return rv


# ---- the latent nodes, parents first
def latents(graph, tag=None):
    if tag is None:
        tag = DEFAULT_TAG
    for node in nx.topological_sort(graph):
        if graph.nodes[node][tag]:
            yield node


def widows(graph, tag=None):
    # a latent without children
    for node in iter_latents(graph, tag=tag):
        if len(set(graph.successors(node))) == 0:
            yield node


def unidirectional(graph, tag=None):
    # a latent with exactly one child
    for node in iter_latents(graph, tag=tag):
        if len(set(graph.successors(node))) == 1:
            yield node


def middle(graph, tag=None):
    # a latent with at least one parent and at least one child, with both sets
    for node in iter_latents(graph, tag=tag):
        if len(set(graph.predecessors(node))) > 0 and len(set(graph.successors(node))) > 0:
            yield node, set(graph.predecessors(node)), set(graph.successors(node))


def redundant(graph, tag=None):
    # children a proper subset of another latent's, or equal and later in the sort order (so that exactly one of two equals goes)
    children = {node: set(graph.successors(node)) for node in iter_latents(graph, tag=tag)}
    for left in children:
        for right in children:
            if (children[left] == children[right] and left > right) or children[left] < children[right]:
                yield left


def without_widows(graph, tag=None):
    remove = set(iter_widow_latents(graph, tag=tag))
    graph.remove_nodes_from(remove)
    return graph, remove


def without_unidirectional(graph, tag=None):
    remove = set(iter_unidirectional_latents(graph, tag=tag))
    graph.remove_nodes_from(remove)
    return graph, remove


def exogenised(graph, tag=None, suffix=None):
    # a latent with parents is replaced by an exogenous copy pointing to the same children; its parents point to its children directly
    if tag is None:
        tag = DEFAULT_TAG
    if suffix is None:
        suffix = DEFAULT_SUFFIX
    for latent, parents, children in iter_middle_latents(graph, tag=tag):
        graph.remove_node(latent)
        graph.add_edges_from(itt.product(parents, children))
        graph.add_node(Variable(f"{latent}{suffix}"), **{tag: True})
        graph.add_edges_from((Variable(f"{latent}{suffix}"), child) for child in children)
    return graph


def simplified(graph, tag=None):
    # Evans' order: exogenise, drop widows, drop single-child latents, drop redundant latents -- each on the result of the previous one
    if tag is None:
        tag = DEFAULT_TAG
    for node in graph.nodes:
        if not isinstance(node, Variable):
            raise TypeError
    graph = transform_latents_with_parents(graph, tag=tag)
    graph, w = remove_widow_latents(graph, tag=tag)
    graph, u = remove_unidirectional_latents(graph, tag=tag)
    graph, r = remove_redundant_latents(graph, tag=tag)
    return SimplifyResults(graph=graph, widows=w, unidirectional_latents=u, redundant=r)
