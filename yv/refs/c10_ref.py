"""Canonical equality of probability expressions, as plain Python.  PARSED and compared as terms; never imported or executed."""

from y0.dsl import _variable_sort_key
from y0.mutate.canonicalize_expr import canonicalize


def canonically_equal(left, right):
    # both sides are canonicalised under ONE ordering that covers the variables of both, then compared with ==
    ordering = sorted(left.get_variables() | right.get_variables(), key=_variable_sort_key)
    return canonicalize(left, ordering) == canonicalize(right, ordering)
