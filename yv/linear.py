"""One-shot iterables: a parameter declared `Iterable[...]` may be an iterator or generator, which can be walked only once.  Along every path
of the function the parameter's own name may therefore be USED at most once (passing it on, looping over it, testing membership, building a
collection from it) -- unless it is first re-bound to a materialised collection (`x = set(x)`, `x = _ensure_set(x)`, `x = list(x)` ...), after
which the name denotes that collection.  Type tests (`isinstance(x, T)`, `x is None`) do not consume anything.

The analysis is syntax-directed over the statement tree: a path-sensitive maximum over if/else branches, loop bodies count double."""

from __future__ import annotations

import ast

from .model import Func

MATERIALISERS = {"set", "frozenset", "list", "tuple", "sorted", "dict", "_ensure_set"}


def _is_iterable_ann(ann: ast.expr | None) -> bool:
    if ann is None:
        return False
    s = ast.unparse(ann)
    return "Iterable" in s or "Iterator" in s or "Generator" in s


def iterable_params(f: Func) -> list[str]:
    a = f.node.args
    return [x.arg for x in a.posonlyargs + a.args + a.kwonlyargs if _is_iterable_ann(x.annotation)]


class _Uses(ast.NodeVisitor):
    """number of consuming uses of `name` in an expression"""

    def __init__(self, name: str) -> None:
        self.name = name
        self.n = 0

    def visit_Call(self, node: ast.Call) -> None:
        fn = node.func.id if isinstance(node.func, ast.Name) else None
        if fn == "isinstance" and node.args and isinstance(node.args[0], ast.Name) and node.args[0].id == self.name:
            for a in node.args[1:]:
                self.visit(a)
            return
        self.generic_visit(node)

    def visit_Compare(self, node: ast.Compare) -> None:
        if isinstance(node.left, ast.Name) and node.left.id == self.name and len(node.ops) == 1 and isinstance(node.ops[0], (ast.Is, ast.IsNot)):
            return  # x is None
        self.generic_visit(node)

    def visit_IfExp(self, node: ast.IfExp) -> None:
        # only one of the two arms is evaluated
        self.visit(node.test)
        before = self.n
        self.visit(node.body)
        a = self.n - before
        self.n = before
        self.visit(node.orelse)
        b = self.n - before
        self.n = before + max(a, b)

    def visit_Name(self, node: ast.Name) -> None:
        if node.id == self.name and isinstance(node.ctx, ast.Load):
            self.n += 1

    def visit_comprehension(self, node: ast.comprehension) -> None:
        self.generic_visit(node)

    def visit_ListComp(self, node):
        self._comp(node)

    visit_SetComp = visit_GeneratorExp = visit_DictComp = visit_ListComp

    def _comp(self, node) -> None:
        # the first generator's iterable is evaluated once; anything else in a comprehension is evaluated per element
        before = self.n
        first = node.generators[0]
        self.visit(first.iter)
        outer = self.n - before
        inner_before = self.n
        for g in node.generators:
            if g is not first:
                self.visit(g.iter)
            for c in g.ifs:
                self.visit(c)
        if isinstance(node, ast.DictComp):
            self.visit(node.key)
            self.visit(node.value)
        else:
            self.visit(node.elt)
        inner = self.n - inner_before
        self.n = before + outer + 2 * inner  # per-element uses happen repeatedly


def _uses(expr: ast.AST | None, name: str) -> int:
    if expr is None:
        return 0
    u = _Uses(name)
    u.visit(expr)
    return u.n


def _materialises(st: ast.stmt, name: str) -> bool:
    """`name = materialiser(name)` (possibly under a conditional expression testing None / isinstance)"""
    if not (isinstance(st, ast.Assign) and len(st.targets) == 1 and isinstance(st.targets[0], ast.Name) and st.targets[0].id == name):
        return False

    def ok(v: ast.expr) -> bool:
        if isinstance(v, ast.Call) and isinstance(v.func, ast.Name) and v.func.id in MATERIALISERS and _uses(v, name) <= 1:
            return True
        if isinstance(v, ast.IfExp):
            return _uses(v.test, name) == 0 and all(ok(b) or _uses(b, name) == 0 for b in (v.body, v.orelse))
        if isinstance(v, (ast.Set, ast.List, ast.Tuple, ast.Constant)) and _uses(v, name) == 0:
            return True
        return False

    return ok(st.value)


def max_uses(body: list[ast.stmt], name: str) -> tuple[int, bool]:
    """(maximum number of consuming uses along a path through `body`, whether the name is materialised on EVERY path that falls through)"""
    total = 0
    for st in body:
        if _materialises(st, name):
            return total + _uses(st.value, name), True
        if isinstance(st, ast.Assign) and any(isinstance(t, ast.Name) and t.id == name for t in st.targets):
            # re-bound to something else: later uses are of the new value; count this statement's own use
            return total + _uses(st.value, name), True
        if isinstance(st, ast.If):
            t = _uses(st.test, name)
            a, am = max_uses(st.body, name)
            b, bm = max_uses(st.orelse, name) if st.orelse else (0, False)
            a_ends = bool(st.body) and isinstance(st.body[-1], (ast.Return, ast.Raise, ast.Continue, ast.Break))
            b_ends = bool(st.orelse) and isinstance(st.orelse[-1], (ast.Return, ast.Raise, ast.Continue, ast.Break))
            if (am or a_ends) and (bm or b_ends) and st.orelse:
                return total + t + max(a, b), True
            # a branch that ends the function (or materialises) does not add to the uses of the path that goes on
            cont = [x for x, ends, mat in ((a, a_ends, am), (b, b_ends, bm)) if not ends and not mat]
            worst_inside = max(a, b)
            if total + t + worst_inside > 1 and (a_ends or b_ends or am or bm):
                # remember the worst finished path by returning it if nothing later exceeds it
                pass
            total_cont = total + t + (max(cont) if cont else 0)
            finished = total + t + worst_inside
            rest, rm = max_uses(body[body.index(st) + 1:], name)
            return max(finished, total_cont + rest), rm
        if isinstance(st, (ast.For, ast.AsyncFor)):
            total += _uses(st.iter, name)
            inner, _ = max_uses(st.body, name)
            total += 2 * inner
            e, _ = max_uses(st.orelse, name)
            total += e
            continue
        if isinstance(st, ast.While):
            inner, _ = max_uses(st.body, name)
            total += 2 * (inner + _uses(st.test, name))
            continue
        if isinstance(st, ast.Try):
            a, _ = max_uses(st.body, name)
            h = max([max_uses(x.body, name)[0] for x in st.handlers] + [0])
            total += a + h + max_uses(st.finalbody, name)[0] + max_uses(st.orelse, name)[0]
            continue
        if isinstance(st, ast.With):
            total += sum(_uses(i.context_expr, name) for i in st.items) + max_uses(st.body, name)[0]
            continue
        if isinstance(st, (ast.FunctionDef, ast.AsyncFunctionDef, ast.ClassDef)):
            total += 2 * _uses(st, name)
            continue
        total += _uses(st, name)
    return total, False


def check(f: Func) -> list[tuple[str, int]]:
    """[(parameter, uses)] for the Iterable parameters of f that can be consumed more than once along some path"""
    bad = []
    for p in iterable_params(f):
        n, _ = max_uses(list(f.node.body), p)
        if n > 1:
            bad.append((p, n))
    return bad
