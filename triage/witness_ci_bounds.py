import warnings; warnings.filterwarnings("ignore")
from y0.dsl import *
from y0.graph import NxMixedGraph
from y0.algorithm.conditional_independencies import get_conditional_independencies
from y0.util.combinatorics import powerset
g4 = NxMixedGraph.from_str_edges(directed=[("A","B"),("B","C")])
for k in (None,0,1,2):
    print("max_conditions",k, get_conditional_independencies(g4, max_conditions=k))
print(list(powerset([1,2,3], stop=1)), list(powerset([1,2,3])))
# transport leak test: figure 8
from y0.algorithm.transport import identify_target_outcomes
from y0.examples import tikka_trso_figure_8_graph
est = identify_target_outcomes(tikka_trso_figure_8_graph, target_outcomes={Y1,Y2}, target_interventions={X1,X2}, surrogate_outcomes={Pi1:{Y1}, Pi2:{Y2}}, surrogate_interventions={Pi1:{X1}, Pi2:{X2}})
print(est)
print(sorted(v.name for v in est.get_variables()))
