import warnings; warnings.filterwarnings("ignore")
from y0.dsl import *
from y0.dsl import Zero, One, Fraction, Product
from y0.graph import NxMixedGraph
from y0.mutate import canonicalize
from y0.algorithm.counterfactual_transport.ancestor_utils import minimize_counterfactual, get_ancestral_components, _merge_frozen_sets_linked_by_bidirectional_edges
from y0.algorithm.separation import are_sigma_separated, are_d_separated
from y0.algorithm.conditional_independencies import get_conditional_independencies
def t(name, f):
    try:
        print(name, "->", f())
    except Exception as e:
        print(name, "!! EXC", type(e).__name__, e)

g = NxMixedGraph.from_str_edges(directed=[("X","Y"),("Z","Y")])
t("C19 minimize Y@W (W not ancestor)", lambda: minimize_counterfactual(Y @ -Z @ -X, g))
g1 = NxMixedGraph.from_str_edges(nodes=["W"], directed=[("X","Y")])
t("C19 minimize to empty", lambda: minimize_counterfactual(Y @ -W, g1))
t("C19 minimize reflexive Y@Y", lambda: minimize_counterfactual(Y @ -Y, g1))
# phantom merge
g2 = NxMixedGraph.from_str_edges(nodes=["A","B","C","D"], undirected=[("A","C"),("B","D")])
t("C19 phantom merge", lambda: _merge_frozen_sets_linked_by_bidirectional_edges({frozenset({A}), frozenset({B})}, g2))
# sigma vs d
g3 = NxMixedGraph.from_str_edges(directed=[("A","C"),("B","C"),("C","D"),("D","E")])
t("C20 sigma A,B|E (true d-sep: False)", lambda: (are_sigma_separated(g3, A, B, conditions=[E]), bool(are_d_separated(g3, A, B, conditions=[E]))))
t("C20 sigma A,B|D", lambda: (are_sigma_separated(g3, A, B, conditions=[D]), bool(are_d_separated(g3, A, B, conditions=[D]))))
# C15
g4 = NxMixedGraph.from_str_edges(directed=[("A","B"),("B","C")])
t("C15 chain", lambda: get_conditional_independencies(g4))
g5 = NxMixedGraph.from_str_edges(nodes=["A","B","C"], undirected=[("A","C"),("C","B")])
t("C15 admg", lambda: get_conditional_independencies(g5))
# C11 nested product idempotence
inner = Fraction(P(B)*P(C), Sum[D](P(D)))
e = Product((P(A), inner))
c1 = canonicalize(e, [A,B,C,D]); c2 = canonicalize(c1, [A,B,C,D])
t("C11 nested", lambda: (repr(c1), repr(c2), c1==c2, type(c1).__name__, [type(x).__name__ for x in c1.expressions]))
# C13 operators
t("C13 Q*Zero", lambda: Q[A](B) * Zero())
t("C13 Sum*One", lambda: Sum[A](P(A|B)) * One())
t("C13 One/P", lambda: One()/P(A))
t("C13 One*Frac", lambda: One()*Fraction(P(A),P(B)))
t("C13 Zero/Zero", lambda: Zero()/Zero())
t("C13 P/Zero", lambda: P(A)/Zero())
t("C13 Frac.simplify cancel", lambda: Fraction(P(A)*P(B), P(B)*P(C)).simplify())
t("C13 Frac.simplify one/frac", lambda: Fraction(One(), Fraction(P(A),P(B))).simplify())
t("C13 conditional", lambda: P(A,B).conditional(A))
t("C13 Sum.conditional", lambda: Sum[C](P(A,B,C)).conditional(A))
