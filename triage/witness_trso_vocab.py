import warnings; warnings.filterwarnings("ignore")
import random, itertools as itt
from y0.dsl import *
from y0.dsl import X1, X2, PopulationProbability, Probability, Sum, Product, Fraction
from y0.graph import NxMixedGraph
from y0.algorithm.transport import identify_target_outcomes, is_transport_node
from y0.examples import tikka_trso_figure_8_graph
est = identify_target_outcomes(tikka_trso_figure_8_graph, target_outcomes={Y1,Y2}, target_interventions={X1,X2}, surrogate_outcomes={Pi1:{Y1}, Pi2:{Y2}}, surrogate_interventions={Pi1:{X1}, Pi2:{X2}})
print(est)
names = ["A","B","C","D","E"]
def rand_admg(rnd, n):
    vs = names[:n]
    di = [(vs[i], vs[j]) for i in range(n) for j in range(i+1, n) if rnd.random() < 0.5]
    bi = [(vs[i], vs[j]) for i in range(n) for j in range(i+1, n) if rnd.random() < 0.3]
    return NxMixedGraph.from_str_edges(nodes=vs, directed=di, undirected=bi)
rnd = random.Random(7)
leaks = []; excs = {}; n=0; some=0
def leaves(e):
    if isinstance(e, Probability): yield e
    elif isinstance(e, Sum): yield from leaves(e.expression)
    elif isinstance(e, Product):
        for x in e.expressions: yield from leaves(x)
    elif isinstance(e, Fraction):
        yield from leaves(e.numerator); yield from leaves(e.denominator)
for it in range(600):
    k = rnd.choice([3,4,5]); g = rand_admg(rnd, k); vs=[Variable(x) for x in names[:k]]
    x, y = rnd.sample(vs, 2)
    doms = {}
    so = {}; si = {}
    for pi in (Pi1, Pi2)[:rnd.choice([1,2])]:
        zs = set(rnd.sample(vs, rnd.choice([1,2]))) - {y}
        ws = set(rnd.sample(vs, rnd.choice([1,2]))) - zs
        if not zs or not ws: continue
        so[pi] = ws; si[pi] = zs
    if not so: continue
    n+=1
    try:
        est = identify_target_outcomes(g, target_outcomes={y}, target_interventions={x}, surrogate_outcomes=so, surrogate_interventions=si)
    except Exception as e:
        excs.setdefault(type(e).__name__, []).append((sorted(map(str,g.directed.edges())), sorted(map(str,g.undirected.edges())), x, y, so, si, str(e)[:80]))
        continue
    if est is None: continue
    some+=1
    if any(is_transport_node(v) for v in est.get_variables()):
        leaks.append((sorted(map(str,g.directed.edges())), sorted(map(str,g.undirected.edges())), x, y, so, si, str(est)))
    for lf in leaves(est):
        if not isinstance(lf, PopulationProbability):
            leaks.append(("PLAIN-P", str(est))); break
print("n", n, "answered", some, "leaks", len(leaks), {k: len(v) for k,v in excs.items()})
for l in leaks[:5]: print(l)
for k,v in excs.items():
    for r in v[:3]: print(k, r)
