"""Triage only: TRSO with no surrogate experiments must equal ID; compare with a brute-force SCM."""
import warnings; warnings.filterwarnings("ignore")
import logging; logging.disable(logging.CRITICAL)
import itertools as itt, random
from scm import *
from y0.algorithm.transport import identify_target_outcomes
names = ["A","B","C","D","E"]
def rand_admg(rnd, n):
    vs = names[:n]
    di = [(vs[i], vs[j]) for i in range(n) for j in range(i+1, n) if rnd.random() < 0.45]
    bi = [(vs[i], vs[j]) for i in range(n) for j in range(i+1, n) if rnd.random() < 0.35]
    return NxMixedGraph.from_str_edges(nodes=vs, directed=di, undirected=bi)
rnd = random.Random(1)
bad = {}; exc = {}; n_ok = 0
for it in range(400):
    n = rnd.choice([3,4,4,5]); g = rand_admg(rnd, n); vs = [Variable(x) for x in names[:n]]
    x, y = rnd.sample(vs, 2)
    try:
        est = identify_target_outcomes(g, target_outcomes={y}, target_interventions={x}, surrogate_outcomes={}, surrogate_interventions={})
    except Exception as e:
        exc.setdefault(type(e).__name__, []).append((sorted(map(str, g.directed.edges())), sorted(map(str, g.undirected.edges())), str(x), str(y), str(e)[:60])); continue
    if est is None: continue
    m = SCM(g, it); V = m.V; J = m.joint(); worst = 0
    free = [v for v in est.get_variables() if v not in (x, y)]
    for xv, yv in itt.product([0,1],[0,1]):
        truth = marg(m.joint(do={x: xv}), V, {y: yv})
        for fv in itt.product([0,1], repeat=len(free)):
            worst = max(worst, abs(ev(est, J, V, {x: xv, y: yv, **dict(zip(free, fv))}) - truth))
    if worst > 1e-9: bad[(tuple(sorted(map(str,g.directed.edges()))), tuple(sorted(map(str,g.undirected.edges()))), str(x), str(y))] = (worst, str(est))
    else: n_ok += 1
print("ok", n_ok, "bad", len(bad), "exc", {k: len(v) for k, v in exc.items()})
for k, v in list(bad.items())[:4]: print(k, v)
for k, v in exc.items(): print(k, v[:2])
