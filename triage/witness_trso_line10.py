"""Triage only: look for queries where trso_line10 is reached with a distribution that is not the joint."""
import warnings; warnings.filterwarnings("ignore")
import logging; logging.disable(logging.CRITICAL)
import itertools as itt, random, sys
from scm import *
import y0.algorithm.transport as tr
from y0.dsl import Sum, Probability
hits = []
orig = tr.trso_line10
def wrapped(query, district, nsi):
    j = query.expression
    while isinstance(j, Sum): j = j.expression
    if not (isinstance(j, Probability) and not j.parents):
        hits.append(str(query.expression))
    return orig(query, district, nsi)
tr.trso_line10 = wrapped
names = ["A","B","C","D","E","F"]
def rand_admg(rnd, n):
    vs = names[:n]
    di = [(vs[i], vs[j]) for i in range(n) for j in range(i+1, n) if rnd.random() < 0.4]
    bi = [(vs[i], vs[j]) for i in range(n) for j in range(i+1, n) if rnd.random() < 0.45]
    return NxMixedGraph.from_str_edges(nodes=vs, directed=di, undirected=bi)
rnd = random.Random(int(sys.argv[1]) if len(sys.argv) > 1 else 3)
found = 0; bad = 0
for it in range(3000):
    n = rnd.choice([5,6]); g = rand_admg(rnd, n); vs = [Variable(x) for x in names[:n]]
    k = rnd.choice([1,2]); xs = set(rnd.sample(vs, k)); y = rnd.choice([v for v in vs if v not in xs])
    hits.clear()
    try:
        est = tr.identify_target_outcomes(g, target_outcomes={y}, target_interventions=xs, surrogate_outcomes={}, surrogate_interventions={})
    except Exception as e:
        continue
    if est is None or not hits: continue
    found += 1
    m = SCM(g, it); V = m.V; J = m.joint(); worst = 0
    xl = sorted(xs, key=str)
    free = [v for v in est.get_variables() if v not in xs and v != y]
    for vals in itt.product([0,1], repeat=len(xl)+1):
        env = dict(zip(xl + [y], vals))
        truth = marg(m.joint(do={x: env[x] for x in xl}), V, {y: env[y]})
        for fv in itt.product([0,1], repeat=len(free)):
            worst = max(worst, abs(ev(est, J, V, {**env, **dict(zip(free, fv))}) - truth))
    if worst > 1e-9:
        bad += 1
        if bad <= 3: print("BAD", sorted(map(str,g.directed.edges())), sorted(map(str,g.undirected.edges())), xs, y, worst, est)
print("nested-line10 cases", found, "wrong", bad)
