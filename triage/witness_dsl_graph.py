import warnings; warnings.filterwarnings("ignore")
from y0.dsl import *
from y0.dsl import Zero, One, Fraction, Product
from y0.graph import NxMixedGraph
from y0.parser import parse_y0
from y0.mutate import canonicalize, canonical_expr_equal
from y0.algorithm.identify import identify_outcomes, Identification, identify
from y0.algorithm.conditional_independencies import are_d_separated, get_conditional_independencies

def t(name, f):
    try:
        print(name, "->", f())
    except Exception as e:
        print(name, "!! EXC", type(e).__name__, e)

# C14 remove_in_edges node dropping
g = NxMixedGraph.from_str_edges(nodes=["A","B","C","I"], directed=[("A","B"),("C","B")])
t("C14 remove_in_edges(B) nodes", lambda: sorted(map(str, g.remove_in_edges(Variable("B")).nodes())))
t("C14 subgraph", lambda: sorted(map(str, g.subgraph({Variable("A"),Variable("I")}).nodes())))
t("C14 remove_out_edges", lambda: sorted(map(str, g.remove_out_edges({Variable("A")}).nodes())))
# C16 round trip isolated
t("C16 rt", lambda: NxMixedGraph.from_latent_variable_dag(g.to_latent_variable_dag()) == g)
g2 = NxMixedGraph.from_str_edges(directed=[("A","B")], undirected=[("A","B")])
t("C16 rt connected", lambda: NxMixedGraph.from_latent_variable_dag(g2.to_latent_variable_dag()) == g2)
# C02 isolated node / lone outcome
g3 = NxMixedGraph.from_str_edges(nodes=["X","Y","Z"], directed=[("X","Y")])
t("C02 id isolated Z", lambda: identify_outcomes(g3, treatments={X}, outcomes={Y}))
t("C02 id outcomes Y,Z", lambda: identify_outcomes(g3, treatments={X}, outcomes={Y, Z}))
# C04 bidirected collider
g4 = NxMixedGraph.from_str_edges(undirected=[("A","C"),("C","B")])
t("C04 A _||_ B | C in A<->C<->B (should be False)", lambda: bool(are_d_separated(g4, A, B, conditions=[C])))
t("C04 A _||_ B | {} (should be True)", lambda: bool(are_d_separated(g4, A, B)))
g5 = NxMixedGraph.from_str_edges(directed=[("A","C")], undirected=[("C","B")])
t("C04 A->C<->B | C (should be False)", lambda: bool(are_d_separated(g5, A, B, conditions=[C])))
# C12
t("C12 parse One", lambda: parse_y0(str(One())))
t("C12 parse Zero", lambda: parse_y0(str(Zero())))
e = Fraction(P(A), P(B)*P(C))
t("C12 frac-prod str", lambda: str(e))
t("C12 frac-prod rt eq", lambda: (parse_y0(str(e)), parse_y0(str(e)) == e))
e2 = P(A) * (P(B)/P(C))
t("C12 prod of frac", lambda: (str(e2), parse_y0(str(e2))==e2))
e3 = Sum[B](P(A|B)*P(B))
t("C12 sum", lambda: (str(e3), parse_y0(str(e3))==e3))
t("C12 P[+X,Y]", lambda: (str(P(Y @ +X @ -Z)), parse_y0(str(P(Y @ +X @ -Z)))==P(Y @ +X @ -Z)))
t("C12 PP", lambda: (str(PP[Pi1](Y @ -X)), parse_y0(str(PP[Pi1](Y @ -X)))==PP[Pi1](Y @ -X)))
t("C12 Q", lambda: (str(Q[A,B](C,D)), parse_y0(str(Q[A,B](C,D)))==Q[A,B](C,D)))
t("C12 star var", lambda: (str(P(+A | -B)), parse_y0(str(P(+A | -B)))==P(+A|-B)))
t("C12 mixed cf", lambda: (str(P(Y @ X, Z)), parse_y0(str(P(Y @ X, Z)))==P(Y @ X, Z)))
# C11 ties
a = P(A|B)*P(A|C); b = P(A|C)*P(A|B)
t("C11 tie", lambda: (str(canonicalize(a,[A,B,C])), str(canonicalize(b,[A,B,C])), canonicalize(a,[A,B,C])==canonicalize(b,[A,B,C])))
# C11 idempotence
x = Fraction(P(A,B), Sum[A](P(A,B)))
t("C11 idem", lambda: (str(canonicalize(x,[A,B])), str(canonicalize(canonicalize(x,[A,B]),[A,B]))))
# C10: Sum.simplify partial overlap etc
t("C10 sum simplify superset", lambda: str(canonicalize(Sum[A,B,C](P(A,B)), [A,B,C])))
t("C10 sum cond", lambda: str(canonicalize(Sum[B](P(A|B)), [A,B])))
t("C10 sum cf joint", lambda: str(canonicalize(Sum[Y](P(Y @ X, Y @ Z)), [X,Y,Z])))
