"""Tiny brute-force binary SCM + expression evaluator (triage only)."""
import itertools as itt, random
from y0.dsl import *
from y0.dsl import Zero, One, Fraction, Product, Probability, Sum, CounterfactualVariable
from y0.graph import NxMixedGraph

class SCM:
    def __init__(self, graph, seed=0):
        rnd = random.Random(seed)
        self.g = graph
        self.V = list(graph.topological_sort())
        self.lat = {}  # latent name -> prob
        self.lat_of = {v: [] for v in self.V}
        for i, (a, b) in enumerate(graph.undirected.edges()):
            u = f"U{i}"; self.lat[u] = rnd.uniform(0.2, 0.8)
            self.lat_of[a].append(u); self.lat_of[b].append(u)
        self.cpt = {}
        for v in self.V:
            pa = list(graph.directed.predecessors(v)) + self.lat_of[v]
            self.cpt[v] = {vals: rnd.uniform(0.1, 0.9) for vals in itt.product([0, 1], repeat=len(pa))}
    def joint(self, do=None):
        """dict assignment(tuple over V) -> prob, under do (dict var->val)."""
        do = do or {}
        res = {}
        lat = list(self.lat)
        for uvals in itt.product([0, 1], repeat=len(lat)):
            pu = 1.0
            ud = dict(zip(lat, uvals))
            for u, x in ud.items():
                pu *= self.lat[u] if x else 1 - self.lat[u]
            for vals in itt.product([0, 1], repeat=len(self.V)):
                a = dict(zip(self.V, vals)); p = pu
                for v in self.V:
                    if v in do:
                        if a[v] != do[v]: p = 0; break
                        continue
                    pa = [a[q] for q in self.g.directed.predecessors(v)] + [ud[u] for u in self.lat_of[v]]
                    q = self.cpt[v][tuple(pa)]
                    p *= q if a[v] else 1 - q
                if p:
                    res[vals] = res.get(vals, 0) + p
        return res

def marg(joint, V, assign):
    """P(assign) where assign: dict var->val"""
    idx = {v: i for i, v in enumerate(V)}
    return sum(p for vals, p in joint.items() if all(vals[idx[v]] == x for v, x in assign.items()))

def ev(expr, joint, V, env):
    if isinstance(expr, Probability):
        ch = {c.get_base(): env[c.get_base()] for c in expr.children}
        pa = {c.get_base(): env[c.get_base()] for c in expr.parents}
        num = marg(joint, V, {**ch, **pa}); den = marg(joint, V, pa) if pa else 1.0
        return num / den
    if isinstance(expr, Sum):
        rs = list(expr.ranges); tot = 0
        for vals in itt.product([0, 1], repeat=len(rs)):
            tot += ev(expr.expression, joint, V, {**env, **dict(zip(rs, vals))})
        return tot
    if isinstance(expr, Product):
        r = 1
        for e in expr.expressions: r *= ev(e, joint, V, env)
        return r
    if isinstance(expr, Fraction):
        return ev(expr.numerator, joint, V, env) / ev(expr.denominator, joint, V, env)
    if isinstance(expr, One): return 1.0
    if isinstance(expr, Zero): return 0.0
    raise TypeError(expr)
